#!/bin/bash
# tools/verify_seed.sh <ID> <mN> [<source root> [<name under seeded/>]]   — confirm a seeded change independently in the scratch worktree /tmp/wt-<ID>:
#   patch applies; crate compiles; the existing suite passes with it (the 4 always-fail baseline tests excepted);
#   demo fails with it; demo passes without it. On success copies patch.diff / demo.rs / meta.json to seeded/<ID>-<mN>/.
set -u
ID="$1"; M="$2"; WT="/tmp/wt-$ID"; SRC="${3:-/tmp/seed-$ID}/$M"; OUT="/verif/seeded/$ID-${4:-$M}"
export CARGO_NET_OFFLINE=true
cd "$WT" || exit 2
git checkout -q -- . ; rm -f tests/zz_seed_demo.rs
git apply --check "$SRC/patch.diff" || { echo "$ID-$M: patch does not apply"; exit 1; }
git apply "$SRC/patch.diff"
if git diff --name-only | grep -v '^src/' | grep -q .; then echo "$ID-$M: patch touches files outside src/"; git checkout -q -- .; exit 1; fi
run_suite() {
  suite=$(cargo test --offline --no-fail-fast -j 4 2>&1)
  fails=$(echo "$suite" | grep -E "^test \S+ \.\.\. FAILED" | grep -v -E "test_hidden_signature_multi_recipient|test_multi_recipient|test_visible_signature_multi_recipient|test_signed_plaintext" )
}
run_suite
# the repository's SSH signing tests fail about once in 30 runs on the unmodified tree (dependency finding K2):
# when they are the only failures, the suite is run again
if [ -n "$fails" ] && ! echo "$fails" | grep -v -E "test_keypair_signing_ssh|test_ssh_signed_plaintext" | grep -q .; then run_suite; fi
compiled=$(echo "$suite" | grep -c -E "^error\[E|could not compile")
if [ "$compiled" != "0" ]; then echo "$ID-$M: does not compile"; git checkout -q -- .; exit 1; fi
if [ -n "$fails" ]; then echo "$ID-$M: existing suite fails with the change: $fails"; git checkout -q -- .; exit 1; fi
npass=$(echo "$suite" | grep -E "^test result: ok" | wc -l)
cp "$SRC/demo.rs" tests/zz_seed_demo.rs
with=$(cargo test --offline --test zz_seed_demo -j 4 2>&1); wcode=$?
git checkout -q -- src
without=$(cargo test --offline --test zz_seed_demo -j 4 2>&1); wocode=$?
rm -f tests/zz_seed_demo.rs; git checkout -q -- .
if [ $wcode -eq 0 ]; then echo "$ID-$M: demo does NOT fail with the change"; exit 1; fi
if [ $wocode -ne 0 ]; then echo "$ID-$M: demo fails WITHOUT the change: $(echo "$without" | tail -5)"; exit 1; fi
mkdir -p "$OUT"; cp "$SRC/patch.diff" "$SRC/demo.rs" "$OUT/"
python3 - "$SRC/meta.json" "$OUT/meta.json" "$npass" <<'PY'
import json, sys
src, dst, npass = sys.argv[1:4]
try: m = json.load(open(src))
except Exception: m = {"summary": open(src).read()[:500]}
m["confirmed_by_verif"] = {"how": "tools/verify_seed.sh in the scratch worktree: git apply; cargo test --offline --no-fail-fast (whole suite, %s result blocks ok, no failure beyond the four always-fail baseline tests); demo as tests/zz_seed_demo.rs fails with the change and passes after git checkout -- src" % npass}
json.dump(m, open(dst, "w"), indent=1)
PY
echo "$ID-$M: CONFIRMED"
