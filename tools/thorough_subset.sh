#!/bin/bash
rc=0
for id in C01 C04 C07 C10 C16 C17 C19; do
  out=$(./check "$id" thorough 2>/dev/null); code=$?
  echo "$id exit=$code $(echo "$out" | grep -v '^KNOWN-FINDING' | tail -1 | cut -c1-200)"
  [ $code -ne 0 ] && rc=1
done
exit $rc
