#!/bin/bash
# tools/thorough_subset.sh [IDs...] — thorough tier for a subset (default: the checks changed last)
rc=0
for id in ${@:-C20}; do
  out=$(./check "$id" thorough 2>/dev/null); code=$?
  echo "$id exit=$code $(echo "$out" | grep -v '^KNOWN-FINDING' | tail -1 | cut -c1-200)"
  [ $code -ne 0 ] && rc=1
done
exit $rc
