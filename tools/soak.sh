#!/bin/bash
# tools/soak.sh [first_seed] [last_seed] — every quick check once per seed on the current tree; any line printed
# is an alarm on a tree where the properties hold (or a new genuine finding) and must be looked at.
cd "$(dirname "$0")/.."
a=${1:-2}; b=${2:-11}
for s in $(seq $a $b); do
  for id in $(cat tools/built.txt); do
    out=$(VERIF_SEED=$s timeout 1800 ./check "$id" quick 2>/dev/null); code=$?
    if [ $code -ne 0 ]; then echo "seed=$s $id exit=$code $(echo "$out" | grep -v '^KNOWN-FINDING' | tail -2 | head -1 | cut -c1-300)"; fi
  done
done
echo "soak $a..$b done"
