#!/bin/bash
# tools/sens_all.sh — the complete sensitivity pass with the checks as they are now: every fix: commit reverted,
# every seeded change, every hand-written mutant; each against the property's own quick check (and for the
# fix reverts the checks listed with them). Logs go to sensitivity/results/. Takes ~2 h.
cd "$(dirname "$0")/.."
export SAVE_REGRESS=1
R=sensitivity/results
: > $R/fix_reverts.log; : > $R/seeded.log; : > $R/own_mutants.log
rev() { name=$1; commit=$2; shift 2; tools/mutant.sh fix-$name --revert $commit "$@" >> $R/fix_reverts.log 2>&1; }
rev f32 e035ad1 C01 C05
rev compress-action 8b4b3f8 C02 C16
rev uncompress-subject 686a9b6 C13 C01
rev decoder-order 51210f6 C06
rev encrypted-trailing 4c91389 C06
rev compressed-reencode e9a3752 C06
rev hashset f6f93c5 C07
rev obscured-signature c7edfb1 C09
rev metadata-outer c6ad4e7 C09
rev lookup-panic 87bb5ce C16 C09
rev proof-position 2fcea50 C12
rev poison 8a89949 C16 C20
rev metadata-node-subject 2be64ee C09 C02
rev outer-signature-obscured 9f2b679 C09 C02
rev knownvalue-negative 2777250 C15
rev decorated-plain-signature deb7577 C09
rev annotated-redacted-sealed-message e60f76b C10
rev truncated-share 077ca57 C11
rev junk-sealed-message 5ab789d C10
# the two recipient fixes touch the same lines; the later one is reverted alone, then both together
rev stale-recipient 8804494 C10
git -C /repo diff 3a97a18~1 8804494 -- src/extension/recipient.rs > /tmp/both-recipient.diff
git -C /repo apply -R /tmp/both-recipient.diff && { for id in C10 C16; do out=$(./check $id quick 2>&1); code=$?; why=$(echo "$out" | grep -E "^$id \[|^regression input" | head -1 | cut -c1-260); [ $code -eq 1 ] && echo "fix-recipient-scheme  $id  CAUGHT  $why" || echo "fix-recipient-scheme  $id  MISSED(exit $code)"; done >> $R/fix_reverts.log; git -C /repo checkout -- .; }
for d in seeded/C*-m*; do
  n=$(basename $d); id=${n%%-*}
  tools/mutant.sh seed-$n $d/patch.diff $id >> $R/seeded.log 2>&1
done
for f in sensitivity/own/*.diff; do
  n=$(basename $f .diff); id=${n%%-*}
  tools/mutant.sh own-$n $f $id >> $R/own_mutants.log 2>&1
done
git -C /repo status --short
echo "sensitivity pass done"
