#!/bin/bash
# tools/run_all.sh [quick|thorough] — runs every claimed check once on the current tree; prints one line each.
cd "$(dirname "$0")/.."
tier="${1:-quick}"
rc=0
for id in $(cat tools/built.txt); do
  out=$(./check "$id" "$tier" 2>/dev/null); code=$?
  echo "$id exit=$code $(echo "$out" | grep -v '^KNOWN-FINDING' | tail -1 | cut -c1-200)"
  [ $code -ne 0 ] && rc=1
done
exit $rc
