#!/usr/bin/env python3
"""Builds sensitivity/TABLE.md from the logs under sensitivity/results (written by tools/mutant.sh runs)."""
import glob, json, os, re, collections
HERE = os.path.dirname(os.path.dirname(os.path.abspath(__file__)))
rows = collections.OrderedDict()
for f in sorted(glob.glob(os.path.join(HERE, "sensitivity/results/*.log"))):
    for l in open(f, errors="replace"):
        m = re.match(r"(\S+)\s+(C\d\d)\s+(CAUGHT|MISSED|INCONCLUSIVE\S*)\s*(.*)", l)
        if not m: continue
        name, cid, verdict, why = m.groups()
        key = re.search(r"(C\d\d/[^\s:]+)", why)
        rows.setdefault(name, collections.OrderedDict())[cid] = (verdict, key.group(1) if key else "")
FIXES = {}
try:
    known = {f.get("commit"): f.get("what", "") for f in json.load(open(os.path.join(HERE, "known_findings.json")))["findings"] if f.get("status") == "fixed"}
    for l in open(os.path.join(HERE, "tools/sens_all.sh")):
        m = re.match(r"rev (\S+) ([0-9a-f]{7})", l)
        if m and m.group(2) in known:
            FIXES["fix-" + m.group(1)] = "revert of " + m.group(2) + ": " + re.sub(r"^fixed: property=\S+ \S+ ", "", known[m.group(2)])
    FIXES["fix-recipient-scheme"] = "revert of 3a97a18 (with 8804494): " + re.sub(r"^fixed: property=\S+ \S+ ", "", known.get("3a97a18", ""))
except Exception:
    pass
def summary(name):
    if name in FIXES:
        return FIXES[name]
    if name.startswith("own-"):
        return "hand-written mutant " + name[4:] + " (sensitivity/own/" + name[4:] + ".diff)"
    if name.startswith("seed-"):
        p = os.path.join(HERE, "seeded", name[5:], "meta.json")
        if os.path.exists(p):
            try: return json.load(open(p)).get("summary", "")
            except Exception: return ""
    return ""
out = ["| change | what it does | caught by (finding key) | not caught by |", "|---|---|---|---|"]
for name, res in rows.items():
    caught = "; ".join(f"{c} `{k}`" if k else c for c, (v, k) in res.items() if v == "CAUGHT")
    missed = ", ".join(c for c, (v, k) in res.items() if v != "CAUGHT")
    s = summary(name).replace("|", "/").replace("\n", " ")
    if len(s) > 160: s = s[:157] + "…"
    out.append(f"| `{name}` | {s} | {caught or '—'} | {missed or '—'} |")
open(os.path.join(HERE, "sensitivity/TABLE.md"), "w").write("\n".join(out) + "\n")
print(len(rows), "changes")
