#!/usr/bin/env python3
"""Builds sensitivity/TABLE.md from the logs under sensitivity/results (written by tools/mutant.sh runs)."""
import glob, json, os, re, collections
HERE = os.path.dirname(os.path.dirname(os.path.abspath(__file__)))
rows = collections.OrderedDict()
for f in sorted(glob.glob(os.path.join(HERE, "sensitivity/results/*.log"))):
    for l in open(f, errors="replace"):
        m = re.match(r"(\S+)\s+(C\d\d)\s+(CAUGHT|MISSED|INCONCLUSIVE\S*)\s*(.*)", l)
        if not m: continue
        name, cid, verdict, why = m.groups()
        key = re.search(r"(C\d\d/[^\s:]+)", why)
        rows.setdefault(name, collections.OrderedDict())[cid] = (verdict, key.group(1) if key else "")
def summary(name):
    if name.startswith("seed-"):
        p = os.path.join(HERE, "seeded", name[5:], "meta.json")
        if os.path.exists(p):
            try: return json.load(open(p)).get("summary", "")
            except Exception: return ""
    return ""
out = ["| change | what it does | caught by (finding key) | not caught by |", "|---|---|---|---|"]
for name, res in rows.items():
    caught = "; ".join(f"{c} `{k}`" if k else c for c, (v, k) in res.items() if v == "CAUGHT")
    missed = ", ".join(c for c, (v, k) in res.items() if v != "CAUGHT")
    s = summary(name).replace("|", "/").replace("\n", " ")
    if len(s) > 160: s = s[:157] + "…"
    out.append(f"| `{name}` | {s} | {caught or '—'} | {missed or '—'} |")
open(os.path.join(HERE, "sensitivity/TABLE.md"), "w").write("\n".join(out) + "\n")
print(len(rows), "changes")
