#!/bin/bash
# tools/mutant.sh <name> (--revert <commit> | <patch.diff>) <ID> [<ID> ...]
# Applies a change to /repo (a seeded patch, or the reversal of a fix commit), runs the quick check of
# each listed property, prints one line per check, and restores /repo (git checkout -- .) whatever
# happens. With SAVE_REGRESS=1 the shrunk failing input of each detecting check is copied to
# regress/<ID>/<name>.bin.
set -u
HERE="$(cd "$(dirname "$0")/.." && pwd)"
name="$1"; shift
if [ "$1" = "--revert" ]; then
  commit="$2"; shift 2
  git -C /repo show "$commit" > /tmp/mutant-$$.diff
  apply() { git -C /repo apply -R /tmp/mutant-$$.diff; }
else
  patch="$1"; shift
  cp "$patch" /tmp/mutant-$$.diff
  apply() { git -C /repo apply /tmp/mutant-$$.diff; }
fi
if [ -n "$(git -C /repo status --porcelain --untracked-files=no)" ]; then echo "/repo is not clean"; exit 2; fi
restore() { git -C /repo checkout -- . ; rm -f /tmp/mutant-$$.diff; }
trap restore EXIT
if ! apply; then echo "$name: patch does not apply"; exit 2; fi
for id in "$@"; do
  out=$("$HERE/check" "$id" quick 2>&1); code=$?
  line=$(echo "$out" | grep -E "^VIOLATION" | head -1)
  why=$(echo "$out" | grep -E "^$id \[|^regression input" | head -1 | cut -c1-260)
  if [ $code -eq 1 ]; then
    echo "$name  $id  CAUGHT  $why"
    if [ "${SAVE_REGRESS:-0}" = "1" ]; then
      f=$(echo "$line" | sed -E 's/.*replay=//')
      mkdir -p "$HERE/regress/$id"; cp "$f" "$HERE/regress/$id/$name.bin"
    fi
  elif [ $code -eq 0 ]; then echo "$name  $id  MISSED"
  else echo "$name  $id  INCONCLUSIVE(exit $code) $(echo "$out" | tail -2 | tr '\n' ' ' | cut -c1-200)"
  fi
done
