#!/usr/bin/env python3
"""Writes /verif/MANIFEST.json. A property is claimed when harness/src/props/<id>.rs exists and is
listed in BUILT below; everything else is listed under not_applicable with the reason."""
import json, os, sys
HERE = os.path.dirname(os.path.dirname(os.path.abspath(__file__)))

# id -> (technique, level text, level note, design_ref)
P = {
 "C01": ("property-based testing (proptest over choice sequences) against an independent reference model of the spec digest rules; route-independence differential; stateful op histories",
         "Generated envelope trees built along three routes and stepped through generated histories; every element's digest is recomputed bottom-up by the harness (own SHA-256 + own dCBOR) and must equal the library's at every position, in the structure and in the emitted bytes; histories include refused operations (non-assertions offered as assertions, forged encrypted subjects) and 8-20 extra nesting levels. Exploration: held on everything generated, no proof.",
         "sha2 crate; bc-components used only to make/open ciphertext and compressed blobs; depth <= 8", "§3 C01"),
 "C02": ("property-based testing: metamorphic relation (obscure => same digests at every surviving position) + reference model",
         "Generated envelopes x generated target sets (present, absent, multi-position) x both modes x three actions plus the whole-envelope forms and chains; the result is walked position-wise against the original and against the model; in-library assert! panics count as violations. The stated consequence is checked too: an envelope signed by 2-3 keys (with / without metadata) is obscured - often at one element inside a signature assertion - and every signer whose assertion is untouched must still verify. Likewise proofs (made from either envelope, confirmed by the other) and recipients (obscuring one sealed message leaves the other recipients able to open).",
         "same trusted base as C01", "§3 C02"),
 "C03": ("property-based testing against a reference model of the visibility rule + byte-level residue scan",
         "The model computes which elements must be hidden/visible from the stated rule; result must agree position-wise; serialised bytes are parsed by the harness parser and scanned for unique marker leaves of hidden elements; unelide accepts iff digests equal.",
         "marker leaves >= 11 bytes: chance match negligible", "§3 C03"),
 "C04": ("stateful property-based testing (generated operation histories) with a grammar-recogniser invariant after every step",
         "After every step of a generated history the emitted bytes must pass the harness's strict dCBOR parser and envelope-grammar recogniser (arity, slot validity, strictly ascending unique digests, digest sizes) and recomputed digests must equal the library's. Histories include operations that must be refused: non-assertions offered as assertions, and encrypted / compressed elements imported from bc-components values that carry no usable digest declaration. Also array adds that name an assertion twice, replacement by a same-digest rendition, and opening imported elements whose content is a non-canonical node.",
         "recogniser written from spec §3; same trusted base as C01", "§3 C04"),
 "C05": ("property-based round-trip testing with an independent encoder as second oracle",
         "encode -> decode -> position-wise identical and byte-identical re-encoding, through CBOR data, tagged CBOR and UR strings, for every leaf type and obscuration pattern; un-obscured bytes are also pinned to the harness encoder's prediction. The round trip is repeated after the same thread was handed 320 inputs the decoder refuses (decoding depends on the bytes alone).",
         "bc-ur for UR text", "§3 C05"),
 "C06": ("property-based testing + coverage-guided fuzzing (libFuzzer) of the decoder with structural and byte mutators; oracle = re-encode identity + independent grammar recogniser",
         "Valid encodings, structural mutants, byte mutants and random bytes are decoded; the decoder must not panic, and whatever it accepts must re-encode to the input (modulo #6.24) and be accepted by the harness recogniser for exactly the rejection reasons the property lists.",
         "nesting <= 64; recogniser has no opinion on blobs' interior", "§3 C06"),
 "C07": ("property-based testing: exhaustive permutation differential for <=5 assertions, algebraic laws (idempotence, inverse), receiver immutability, equal-value collections",
         "All k! insertion orders (k<=5) through every add API must give one byte string; add-duplicate, add-then-remove, wrap/unwrap laws; receiver snapshot before/after every operation; collections built in different insertion orders and hashers. Sets (HashSet, dcbor::Set) are pinned to the array of their elements in ascending encoded order, incl. equal-length strings that differ only after 30 common bytes. The add / remove laws are repeated on an envelope whose subject is a node; replacing an assertion by an equal one or by a rendition of itself is pinned to the envelope built with that rendition.",
         "HashSet/HashMap iteration orders sampled via fresh hashers", "§3 C07"),
 "C08": ("property-based testing with fault injection: single-field/bit tampering and mis-declared digests of encrypted elements",
         "Round trip with right key, failure with wrong key, and every generated single tampering (ciphertext, nonce, tag, declared digest, truncation/extension) or key-holder mis-declaration must give Err, never an envelope, never a panic. Malformed digest declarations made by a key holder (untagged, raw, 31 bytes, trailing byte, wrong tag, application data) must never decrypt to an envelope, through conversion or decoding.",
         "ChaCha20-Poly1305 forgery probability negligible", "§3 C08"),
 "C09": ("property-based testing over signer sets, schemes, post-signing transformations, key lists/thresholds, plus adversarially constructed 'signed' assertions",
         "Oracle: has_signature_from(k) == (k in S) for every pool key after every transformation; threshold == |L∩S|>=t; metadata only when covered by the same key's outer signature. Also with the envelope as the subject of an outer node, with one element inside another signer's assertion obscured, and with signed assertions that carry a note or a salt. The predicate 'signed' itself obscured; one key signing twice does not count twice towards a threshold.",
         "signature schemes unforgeable; keys from a fixed pool", "§3 C09"),
 "C10": ("property-based testing over recipient lists (X25519/ML-KEM, duplicates) with listed/unlisted keys; seal/unseal scheme matrix",
         "Each listed key opens to exactly the original subject; unlisted keys fail; wrapped and seal forms identical to the original; add_recipient keeps earlier recipients; wrong sender/recipient fail.",
         "KEM/AEAD secure", "§3 C10"),
 "C11": ("property-based testing with exhaustive subset enumeration per generated SSKR policy against a quorum-arithmetic model",
         "For every generated policy, every non-empty subset of the shares is joined; Ok iff the model's quorum holds and then identical to the original; mixed splits are predicted exactly (Ok iff a split whose key opens the first envelope has a quorum); groups of up to 16 members with subsets sampled around the quorum. Share envelopes merged by their holders or with decorated share assertions follow the same quorum rule.",
         "sskr/bc-shamir correct for the split itself", "§3 C11"),
 "C12": ("property-based testing against a set-membership model, with mutation of proofs for soundness and a structural minimality predicate",
         "proof is Some iff targets ⊆ model digests; produced proofs confirm from the bare root; confirm(T,P') == model evaluation for arbitrary/mutated P'; everything off the root-to-target paths and every innermost target is a 34-byte elided digest.",
         "same trusted base as C01", "§3 C12"),
 "C13": ("property-based round-trip testing with fault injection on compressed elements",
         "compress/uncompress (whole, subject) identical with equal digests for every subject case and payload class; idempotent; every mis-declared or corrupted compressed element gives Err or an envelope whose recomputed digest equals the declared one. The Compress action on any inner element must leave that element compressed (and nothing else with its digest uncompressed), and it must uncompress to the element it replaced.",
         "miniz/deflate correct", "§3 C13"),
 "C14": ("property-based testing of an equivalence relation against a reference model (digest + obscuration signature) over generated families",
         "is_equivalent_to <=> model digests equal; is_identical_to/== <=> equivalent and same obscuration signature; reflexive/symmetric/transitive over all pairs and triples of a family.",
         "same trusted base as C01", "§3 C14"),
 "C15": ("property-based testing against an independent traversal/query model",
         "walk (both modes), elements_count, digests(l), accessors and predicate lookups are compared with an independent recursion over case(); typed extraction must return the stored value or Err. Both extraction routes are judged: extract_* (TryFrom<CBOR>) and try_as / try_*_for_predicate (TryFrom<Envelope>). The structural extraction types (Envelope, KnownValue, Digest, Assertion) are judged too.",
         "tree-mode levels as pinned by format_tests", "§3 C15"),
 "C16": ("property-based robustness testing + coverage-guided fuzzing: operation table x generated/decoded envelopes under catch_unwind",
         "About a hundred public entry points applied to library-built, decorated, obscured and adversarially decoded envelopes with generated arguments; any panic is a violation. The table was completed against a scan of the crate's pub fn names (Display / Debug, generic elide forms, *_opt / *_using variants, Attachments container).",
         "documented panicking contracts excluded (DESIGN §1.3)", "§3 C16"),
 "C17": ("property-based testing with statistical decorrelation check",
         "exactly one new 'salt' assertion with length in the documented range; removing it restores the bytes; salted assertion shape; independent saltings pairwise distinct. Salted adds of an already elided / compressed / encrypted assertion must salt it as well. A salted batch gives every assertion its own salt, sized for that assertion.",
         "OS RNG not broken", "§3 C17"),
 "C18": ("property-based round-trip testing with malformed-variant injection",
         "Expression/Request/Response/Event -> envelope -> parse equals the value directly and through bytes; documented shape; every malformed variant is rejected.",
         "dcbor Date fixed points only", "§3 C18"),
 "C19": ("property-based testing against a multiset/filter model with malformed-attachment injection",
         "attachments(), filters, single-result errors, payload/vendor/conformsTo, Attachments container and type checks equal the model's answers; malformed attachments are reported invalid by the unfiltered query and by every filter combination (matching the malformed one or not); a type whose 'isA' assertion carries a salt or a note is reported like any other. The Attachments container written onto an envelope that already holds its attachments adds nothing twice.",
         "", "§3 C19"),
 "C20": ("generated multi-thread programs run in fresh child processes with solo-reference oracle (weak: schedules sampled, not enumerated)",
         "Every thread joins within the watchdog (deadlock = all threads asleep with no CPU in two /proc samples), no panic / poisoned lock (programs may contain a leaf on which a summarizer panics), each result equals the text the call returns alone in one of the registry states reachable for that thread (5 reference child processes), a thread's own registrations are never lost; after a closing barrier (every registration of the program has returned) each thread repeats a formatting call, which must give the text of exactly that final registry state; multithreaded build agrees on every thread. Schedules are sampled by jitter and fresh-process repetition only.",
         "the harness does not own the scheduler", "§3 C20"),
}

BUILT = [l.strip() for l in open(os.path.join(HERE, "tools", "built.txt")) if l.strip()]

checks, na = [], []
for pid in sorted(P):
    tech, text, note, ref = P[pid]
    if pid in BUILT:
        checks.append({
            "property_id": pid,
            "quick_cmd": f"./check {pid} quick",
            "thorough_cmd": f"./check {pid} thorough",
            "evidence_file": f"/verif/evidence/{pid}.json",
            "replay_cmd_template": f"./check {pid} --replay {{path}}",
            "engine": "envverif",
            "level_claimed": {"category": "exploration", "text": text, "design_ref": "DESIGN.md " + ref},
            "level_note": note,
            "technique": tech,
        })
    else:
        na.append({"property_id": pid, "reason": "check not built yet (work in progress; the design for it is in DESIGN.md " + ref + ")"})

m = {
    "version": 1,
    "setup_cmd": "./setup.sh",
    "hooks": {
        "guard": "--cfg bc_envelope_verif",
        "enable": "none needed: every property is observable through the public API (case(), walk, digest(), bytes); checks build /repo as a path dependency with default features",
        "baseline_off_cmd": "/verif/baseline.sh",
        "source_commits": [],
        "add_only": True,
    },
    "engines": [{
        "name": "envverif",
        "path": "harness/",
        "serves_properties": BUILT,
        "kind_free_text": "Rust crate: proptest-driven search over choice sequences with shrinking, independent reference model of the envelope spec (own dCBOR codec, SHA-256 digests, grammar recogniser), replay files, known-findings handling; libFuzzer targets over the same run_case functions",
    }],
    "checks": checks,
    "not_applicable": na,
    "notes": "See DESIGN.md (section 9 = build record). Exit 2 = inconclusive (harness build / self-check failure, wall-clock watchdog). known_findings.json lists open findings (dependency defects K1-K6, printed as KNOWN-FINDING lines) and fixed: records (14 fix: commits in /repo). seeded/ holds 80 independently written breaking changes with demonstrations; sensitivity/TABLE.md says which check catches which change.",
}
json.dump(m, open(os.path.join(HERE, "MANIFEST.json"), "w"), indent=1)
print("claimed:", [c["property_id"] for c in checks])
