//! Harness self-checks run at every invocation: a mismatch here means the harness (or a
//! dependency) is off, never the property — exit 2.

use crate::bridge::leaf_cbor;
use crate::cbor;
use crate::gen::{self, GenCfg, LeafSpec};
use crate::model::M;
use crate::src::Src;
use dcbor::prelude::*;

fn hexd(m: &M) -> String {
    hex::encode(m.digest())
}

pub fn run() -> Result<(), String> {
    // spec test vectors (draft-mcnally-envelope §4 examples)
    let hello = M::text("Hello.");
    if hexd(&hello) != "8cc96cdb771176e835114a0f8936690b41cfed0df22d014eedd64edaea945d59" {
        return Err(format!("leaf digest vector mismatch: {}", hexd(&hello)));
    }
    // model encoder vs dcbor on generated leaves
    let mut seed = 0x1234_5678_9abc_def0u64;
    let mut cfg = GenCfg::new(3, 10);
    let mut n = 0;
    for _ in 0..2000 {
        let mut bytes = Vec::with_capacity(96);
        for _ in 0..96 {
            seed ^= seed << 13;
            seed ^= seed >> 7;
            seed ^= seed << 17;
            bytes.push((seed >> 32) as u8);
        }
        let mut src = Src::new(&bytes);
        cfg.budget = 10;
        let l = gen::gen_leaf(&mut src, &mut cfg, 0);
        if matches!(l, LeafSpec::Embedded(_)) {
            continue;
        }
        let mine = cbor::encode(&l.to_item());
        let theirs = leaf_cbor(&l).to_cbor_data();
        if mine != theirs {
            return Err(format!("model dCBOR encoder disagrees with dcbor on {:?}: model {} dcbor {}", l, hex::encode(&mine), hex::encode(&theirs)));
        }
        // and the harness parser finds it canonical and re-encodes it identically
        let p = cbor::parse(&mine).map_err(|e| format!("harness parser rejects its own encoding of {:?}: {:?}", l, e))?;
        if !p.noncanonical.is_empty() {
            return Err(format!("harness parser calls its own encoding non-canonical {:?}: {:?}", l, p.noncanonical));
        }
        let re = cbor::encode(&cbor::to_item(&mine, &p.root));
        if re != mine {
            return Err(format!("harness re-encode differs for {:?}", l));
        }
        n += 1;
    }
    if n < 1500 {
        return Err("self-check generated too few leaves".into());
    }
    Ok(())
}
