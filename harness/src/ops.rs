//! History operations: generated, applied to the library, and predicted by the model from the
//! documented semantics. Used by C01, C04, C07(e).

use crate::bridge::{self, case_key, other_key, to_hashset};
use crate::gen::{self, GenCfg, Obs, Spec};
use crate::keys;
use crate::model::{self, D32, M};
use crate::src::Src;
use bc_components::{Compressed, EncryptedMessage, SymmetricKey};
use bc_envelope::prelude::*;
use dcbor::prelude::*;
use std::collections::BTreeSet;

#[derive(Clone, Debug)]
pub enum Op {
    Add(Spec),
    /// add_assertion_envelope with something that is not an assertion (nor obscured): must be refused
    AddInvalid(Spec, u8),
    /// an EncryptedMessage / Compressed built with bc-components (key holder), converted with
    /// Envelope::try_from and added as the object of an assertion; variant 0 declares its digest properly,
    /// the others carry no usable digest declaration and must be refused
    Import(u8, u8),
    /// add_assertions / add_assertion_envelopes with an array that names an assertion twice (plain, or
    /// once in obscured form): the set semantics hold inside one call as well
    AddBulk(Spec, Spec, u8, u8),
    /// replace_assertion(a, a') where a' has the digest of a (a itself, or an obscured rendition)
    ReplaceSame(usize, Option<Obs>),
    /// a compressed / encrypted element with a proper digest declaration whose CONTENT is a node that is
    /// not canonical (repeated or out-of-order assertion elements), imported and opened: must be refused
    ImportOpen(u8, u8),
    /// add_assertion_envelope(self.subject()): accepted iff the subject is an assertion (possibly
    /// decorated) or obscured - the subject and an assertion element then share one digest
    AddSubjectItself,
    /// replace_subject with a new subject that itself carries assertion #i of the receiver (or with the
    /// receiver itself): the shared assertion is held once afterwards
    ReplaceSubjectSharing(Option<usize>),
    AddDup(usize),
    AddDupObscured(usize, Obs),
    Remove(usize),
    RemoveAbsent,
    Replace(usize, Spec),
    ReplaceSubject(Spec),
    Wrap,
    Unwrap,
    ElideSet { targets: BTreeSet<D32>, reveal: bool, action: Obs },
    ElideWhole,
    Compress,
    CompressSubject,
    Uncompress,
    UncompressSubject,
    EncryptSubject,
    EncryptSubjectOtherKey,
    DecryptSubject,
    DecryptSubjectWrongKey,
    EncryptWhole,
    DecryptWhole,
    AddSalt,
    AddSignature(usize),
    AddRecipient(usize),
    AddType(u64),
    AddAttachment(Spec, u8),
    AddAssertionSalted(Spec),
    RoundTrip,
}

impl Op {
    pub fn name(&self) -> &'static str {
        match self {
            Op::Add(_) => "add",
            Op::AddInvalid(..) => "add-non-assertion",
            Op::Import(..) => "import-obscured",
            Op::AddBulk(..) => "add-bulk-with-repeats",
            Op::ReplaceSame(..) => "replace-by-equal",
            Op::ImportOpen(..) => "import-and-open-noncanonical",
            Op::AddSubjectItself => "add-subject-as-assertion",
            Op::ReplaceSubjectSharing(_) => "replace-subject-sharing-an-assertion",
            Op::AddDup(_) => "add-duplicate",
            Op::AddDupObscured(..) => "add-duplicate-obscured",
            Op::Remove(_) => "remove",
            Op::RemoveAbsent => "remove-absent",
            Op::Replace(..) => "replace",
            Op::ReplaceSubject(_) => "replace-subject",
            Op::Wrap => "wrap",
            Op::Unwrap => "unwrap",
            Op::ElideSet { .. } => "elide-set",
            Op::ElideWhole => "elide",
            Op::Compress => "compress",
            Op::CompressSubject => "compress-subject",
            Op::Uncompress => "uncompress",
            Op::UncompressSubject => "uncompress-subject",
            Op::EncryptSubject => "encrypt-subject",
            Op::EncryptSubjectOtherKey => "encrypt-subject-k2",
            Op::DecryptSubject => "decrypt-subject",
            Op::DecryptSubjectWrongKey => "decrypt-subject-wrong-key",
            Op::EncryptWhole => "encrypt",
            Op::DecryptWhole => "decrypt",
            Op::AddSalt => "add-salt",
            Op::AddSignature(_) => "add-signature",
            Op::AddRecipient(_) => "add-recipient",
            Op::AddType(_) => "add-type",
            Op::AddAttachment(..) => "add-attachment",
            Op::AddAssertionSalted(_) => "add-assertion-salted",
            Op::RoundTrip => "encode-decode",
        }
    }

    /// Operations that by documentation leave the root digest unchanged when they succeed.
    pub fn digest_neutral(&self) -> bool {
        matches!(
            self,
            Op::AddDup(_)
                | Op::AddDupObscured(..)
                | Op::RemoveAbsent
                | Op::ElideSet { .. }
                | Op::ElideWhole
                | Op::Compress
                | Op::CompressSubject
                | Op::Uncompress
                | Op::UncompressSubject
                | Op::EncryptSubject
                | Op::EncryptSubjectOtherKey
                | Op::DecryptSubject
                | Op::RoundTrip
        )
    }

    pub fn show(&self) -> String {
        match self {
            Op::Add(s) => format!("add({})", bridge::spec_model(s).show()),
            Op::AddInvalid(s, k) => format!("add-non-assertion(kind {}, {})", k, bridge::spec_model(s).show()),
            Op::Import(k, v) => format!("import-{}(declaration variant {})", if *k == 0 { "encrypted-message" } else { "compressed" }, v),
            Op::Replace(i, s) => format!("replace(#{}, {})", i, bridge::spec_model(s).show()),
            Op::AddBulk(a, b, pat, api) => format!("add-bulk(pattern {}, api {}, {}, {})", pat, api, bridge::spec_model(a).show(), bridge::spec_model(b).show()),
            Op::ReplaceSame(i, o) => format!("replace-by-equal(#{}, {:?})", i, o),
            Op::ImportOpen(k, v) => format!("import-and-open-{}(content variant {})", if *k == 0 { "encrypted" } else { "compressed" }, v),
            Op::ReplaceSubject(s) => format!("replace_subject({})", bridge::spec_model(s).show()),
            Op::ElideSet { targets, reveal, action } => format!(
                "elide_{}_set({:?}, [{}])",
                if *reveal { "revealing" } else { "removing" },
                action,
                targets.iter().map(model::hex32).collect::<Vec<_>>().join(",")
            ),
            Op::AddDup(i) => format!("add-duplicate(#{})", i),
            Op::AddDupObscured(i, o) => format!("add-duplicate-obscured(#{}, {:?})", i, o),
            Op::Remove(i) => format!("remove(#{})", i),
            Op::AddSignature(k) => format!("add_signature(key{})", k),
            Op::AddRecipient(k) => format!("add_recipient(key{})", k),
            Op::AddType(t) => format!("add_type('{}')", t),
            Op::AddAttachment(p, v) => format!("add_attachment({}, vendor{})", bridge::spec_model(p).show(), v),
            Op::AddAssertionSalted(s) => format!("add_assertion_salted({})", bridge::spec_model(s).show()),
            other => other.name().to_string(),
        }
    }
}

fn gen_obs_kind(src: &mut Src) -> Obs {
    match src.below(3) {
        0 => Obs::Elide,
        1 => Obs::Encrypt,
        _ => Obs::Compress,
    }
}

fn small_assertion(src: &mut Src) -> Spec {
    let mut cfg = GenCfg::new(2, 6);
    cfg.node_subject = false;
    let p = match src.below(3) {
        0 => Spec::Known(gen::KNOWN_POOL[src.below(gen::KNOWN_POOL.len())]),
        _ => Spec::Leaf(gen::LeafSpec::Str(gen::POOL[src.below(gen::POOL.len())].to_string())),
    };
    let o = gen::normalize(gen::gen_env(src, &mut cfg, 1));
    Spec::Assertion(Box::new(p), Box::new(o))
}

fn small_env(src: &mut Src) -> Spec {
    let mut cfg = GenCfg::new(2, 6);
    cfg.node_subject = false;
    gen::normalize(gen::gen_env(src, &mut cfg, 0))
}

/// Draw the next operation given the current model state (so indices and targets are meaningful).
pub fn gen_op(src: &mut Src, m: &M) -> Op {
    let n_as = m.assertions().len();
    let first = src.byte();
    if first >= 246 {
        return Op::AddInvalid(small_assertion(src), src.below(5) as u8);
    }
    if first >= 238 {
        let kind = src.below(2) as u8;
        return Op::Import(kind, if kind == 0 { src.below(7) as u8 } else { src.below(2) as u8 });
    }
    if first >= 222 && first < 226 {
        return Op::ReplaceSubjectSharing(if n_as > 0 && first % 2 == 0 { Some(src.below(n_as)) } else { None });
    }
    if first >= 226 {
        return match first {
            226..=229 => Op::AddBulk(small_assertion(src), small_assertion(src), src.below(5) as u8, src.below(2) as u8),
            230..=233 if n_as > 0 => Op::ReplaceSame(src.below(n_as), match src.below(4) { 0 => None, 1 => Some(Obs::Elide), 2 => Some(Obs::Compress), _ => Some(Obs::Encrypt) }),
            230..=233 => Op::AddBulk(small_assertion(src), small_assertion(src), 0, 0),
            234 | 235 => Op::AddSubjectItself,
            _ => Op::ImportOpen(src.below(2) as u8, src.below(9) as u8),
        };
    }
    let w = [
        14, // add
        6,  // add dup
        4,  // add dup obscured
        8,  // remove
        2,  // remove absent
        5,  // replace
        5,  // replace subject
        6,  // wrap
        6,  // unwrap
        12, // elide set
        2,  // elide whole
        3,  // compress
        4,  // compress subject
        4,  // uncompress
        5,  // uncompress subject
        4,  // encrypt subject
        1,  // encrypt subject other key
        6,  // decrypt subject
        1,  // decrypt wrong key
        2,  // encrypt whole
        3,  // decrypt whole
        3,  // add salt
        2,  // add signature
        2,  // add recipient
        2,  // add type
        2,  // add attachment
        2,  // add assertion salted
        6,  // roundtrip
    ];
    match src.weighted(&w) {
        0 => Op::Add(small_assertion(src)),
        1 => {
            if n_as == 0 {
                Op::Add(small_assertion(src))
            } else {
                Op::AddDup(src.below(n_as))
            }
        }
        2 => {
            if n_as == 0 {
                Op::Add(small_assertion(src))
            } else {
                Op::AddDupObscured(src.below(n_as), gen_obs_kind(src))
            }
        }
        3 => {
            if n_as == 0 {
                Op::RemoveAbsent
            } else {
                Op::Remove(src.below(n_as))
            }
        }
        4 => Op::RemoveAbsent,
        5 => {
            if n_as == 0 {
                Op::Add(small_assertion(src))
            } else {
                Op::Replace(src.below(n_as), small_assertion(src))
            }
        }
        6 => Op::ReplaceSubject(small_env(src)),
        7 => Op::Wrap,
        8 => Op::Unwrap,
        9 => {
            let targets = gen::gen_targets(src, m, true);
            Op::ElideSet { targets, reveal: src.chance(90), action: gen_obs_kind(src) }
        }
        10 => Op::ElideWhole,
        11 => Op::Compress,
        12 => Op::CompressSubject,
        13 => Op::Uncompress,
        14 => Op::UncompressSubject,
        15 => Op::EncryptSubject,
        16 => Op::EncryptSubjectOtherKey,
        17 => Op::DecryptSubject,
        18 => Op::DecryptSubjectWrongKey,
        19 => Op::EncryptWhole,
        20 => Op::DecryptWhole,
        21 => Op::AddSalt,
        22 => Op::AddSignature(src.below(4)),
        23 => Op::AddRecipient(src.below(4)),
        24 => Op::AddType(gen::KNOWN_POOL[src.below(gen::KNOWN_POOL.len())]),
        25 => Op::AddAttachment(small_env(src), src.below(3) as u8),
        26 => Op::AddAssertionSalted(small_assertion(src)),
        _ => Op::RoundTrip,
    }
}

// ---------------------------------------------------------------------------------------------
// Independent reveal helpers (bc-components + harness recogniser; no bc-envelope code)

fn retag(raw: &[u8]) -> Vec<u8> {
    let mut t = Vec::new();
    crate::cbor::head(6, model::TAG_ENVELOPE, &mut t);
    t.extend_from_slice(raw);
    t
}

pub fn model_decrypt(raw: &[u8], key: &SymmetricKey) -> Option<M> {
    let msg = EncryptedMessage::from_tagged_cbor_data(raw.to_vec()).ok()?;
    let plain = key.decrypt(&msg).ok()?;
    let (r, _) = model::parse_tagged(&plain).ok()?;
    Some(r.m)
}

pub fn model_uncompress(raw: &[u8]) -> Option<M> {
    let c = Compressed::from_tagged_cbor_data(raw.to_vec()).ok()?;
    let plain = c.uncompress().ok()?;
    let (r, _) = model::parse_tagged(&plain).ok()?;
    Some(r.m)
}

pub fn model_encrypted(m: &M, key: &SymmetricKey, nonce: &[u8; 12]) -> M {
    let d = m.digest();
    M::Encrypted(d, bridge::encrypt_blob(key, &m.tagged(), &d, nonce))
}

pub fn model_compressed(m: &M) -> M {
    let d = m.digest();
    M::Compressed(d, bridge::compress_blob(&m.tagged(), &d))
}

fn with_subject(m: &M, new_subject: M) -> M {
    match m {
        M::Node(_, a) => M::Node(Box::new(new_subject), a.clone()),
        _ => new_subject,
    }
}

// ---------------------------------------------------------------------------------------------

pub enum Predicted {
    /// the operation must succeed and produce exactly this (ciphertext bytes aside)
    Exactly(M),
    /// the operation must return an error (state unchanged)
    Error,
    /// result = state + exactly one new assertion element, checked by `shape`
    /// (`true`: a deterministic operation, repeating it may add nothing)
    PlusOne(fn(&M) -> Result<(), String>, bool),
    /// not predicted; judged by the structural invariants only
    Unpredicted,
}

pub struct Applied {
    pub result: Result<Envelope, String>,
    pub predicted: Predicted,
}

fn is_known_pred(a: &M, v: u64) -> bool {
    match a {
        M::Assertion(p, _) => **p == M::Known(v),
        _ => false,
    }
}

fn leaf_tag(m: &M) -> Option<u64> {
    if let M::Leaf(b) = m {
        if let Ok(p) = crate::cbor::parse(b) {
            if let crate::cbor::Kind::Tag(t, _) = p.root.kind {
                return Some(t);
            }
        }
    }
    None
}

fn shape_salt(a: &M) -> Result<(), String> {
    match a {
        M::Assertion(p, o) if **p == M::Known(15) => {
            if let M::Leaf(b) = &**o {
                if let Ok(p) = crate::cbor::parse(b) {
                    if let crate::cbor::Kind::Tag(40018, inner) = &p.root.kind {
                        if let crate::cbor::Kind::B(s, e) = inner.kind {
                            if e - s >= 8 {
                                return Ok(());
                            }
                            return Err(format!("salt of {} bytes", e - s));
                        }
                    }
                }
            }
            Err("salt object is not #6.40018(bytes)".into())
        }
        _ => Err("new element is not a 'salt' assertion".into()),
    }
}

fn shape_signed(a: &M) -> Result<(), String> {
    if is_known_pred(a, 3) {
        if let M::Assertion(_, o) = a {
            if leaf_tag(o) == Some(40020) {
                return Ok(());
            }
        }
        return Err("'signed' object is not a #6.40020 signature leaf".into());
    }
    Err("new element is not a 'signed' assertion".into())
}

fn shape_recipient(a: &M) -> Result<(), String> {
    if is_known_pred(a, 5) {
        if let M::Assertion(_, o) = a {
            if leaf_tag(o) == Some(40019) {
                return Ok(());
            }
        }
        return Err("'hasRecipient' object is not a #6.40019 sealed message leaf".into());
    }
    Err("new element is not a 'hasRecipient' assertion".into())
}

fn shape_salted_assertion(a: &M) -> Result<(), String> {
    match a {
        M::Node(s, asr) if matches!(**s, M::Assertion(..)) => {
            if asr.len() != 1 {
                return Err(format!("salted assertion carries {} assertions", asr.len()));
            }
            shape_salt(&asr[0])
        }
        _ => Err("salted assertion is not an assertion carrying one salt assertion".into()),
    }
}

pub const VENDORS: [&str; 3] = ["com.example", "org.verif", ""];

/// Apply `op` to the library value `e` (whose read-out is `m`) and predict the result.
/// Library calls are *not* guarded here; the caller wraps the whole step in `guard`.
pub fn apply(e: &Envelope, m: &M, op: &Op) -> Applied {
    let key = case_key();
    let ok = |x: Envelope| Ok(x);
    match op {
        Op::Add(s) => {
            let a = bridge::build_a(s, &mut Src::new(&[]));
            let am = bridge::spec_model(s);
            Applied { result: e.add_assertion_envelope(a).map_err(|r| r.to_string()), predicted: Predicted::Exactly(m.add(am)) }
        }
        Op::AddInvalid(s, k) => {
            // things that are neither an assertion (possibly decorated) nor obscured
            let a = bridge::build_a(s, &mut Src::new(&[]));
            let bad: Envelope = match k % 5 {
                0 => a.wrap_envelope(),                                  // a wrapped assertion
                1 => a.wrap_envelope().add_assertion("note", "signed-looking wrapper"), // ... with an assertion on the wrapper
                2 => Envelope::new("just a leaf"),
                3 => bridge::known(7),
                _ => Envelope::new("leaf subject").add_assertion("with", "assertion"),   // a node whose subject is not an assertion
            };
            let via = k / 5;
            let _ = via;
            Applied { result: e.add_assertion_envelope(bad).map_err(|r| r.to_string()), predicted: Predicted::Error }
        }
        Op::Import(kind, variant) => {
            let content = M::text(&format!("imported content {}", variant));
            let d = content.digest();
            let key = bridge::case_key();
            if *kind == 0 {
                let tagged_digest = bridge::dig(&d).tagged_cbor().to_cbor_data();
                let aad: Vec<u8> = match variant {
                    0 => tagged_digest.clone(),
                    1 => Vec::new(),
                    2 => d.to_vec(),
                    3 => {
                        let mut v = vec![0x58, 0x20];
                        v.extend(d);
                        v
                    }
                    4 => {
                        let mut v = tagged_digest.clone();
                        let l = v.len();
                        v[l - 33] = 0x1f;
                        v.truncate(l - 1);
                        v
                    }
                    5 => vec![0x01],
                    _ => {
                        let mut v = vec![0x6b];
                        v.extend(b"application");
                        v
                    }
                };
                let msg = key.encrypt(content.tagged(), Some(aad), Some(bc_components::Nonce::from_data_ref([7u8; 12]).unwrap()));
                let raw = msg.tagged_cbor().to_cbor_data();
                let result = Envelope::try_from(msg).map_err(|r| r.to_string()).map(|x| e.add_assertion("imported", x));
                let predicted = if *variant == 0 { Predicted::Exactly(m.add(M::assertion(M::text("imported"), M::Encrypted(d, raw)))) } else { Predicted::Error };
                Applied { result, predicted }
            } else {
                let c = Compressed::from_uncompressed_data(content.tagged(), if *variant == 0 { Some(bridge::dig(&d)) } else { None });
                let raw = c.tagged_cbor().to_cbor_data();
                let result = Envelope::try_from(c).map_err(|r| r.to_string()).map(|x| e.add_assertion("imported", x));
                let predicted = if *variant == 0 { Predicted::Exactly(m.add(M::assertion(M::text("imported"), M::Compressed(d, raw)))) } else { Predicted::Error };
                Applied { result, predicted }
            }
        }
        Op::AddBulk(sa, sb, pattern, api) => {
            let a = bridge::build_a(sa, &mut Src::new(&[]));
            let b = bridge::build_a(sb, &mut Src::new(&[]));
            let am = bridge::spec_model(sa);
            let bm = bridge::spec_model(sb);
            // (array, the rendition of `a` that comes first)
            let (arr, first_a): (Vec<Envelope>, M) = match pattern % 5 {
                0 => (vec![a.clone(), a.clone()], am.clone()),
                1 => (vec![a.clone(), b.clone(), a.clone()], am.clone()),
                2 => (vec![a.clone(), a.elide()], am.clone()),
                3 => match a.compress() {
                    Ok(c) => (vec![c, a.clone(), b.clone()], model_compressed(&am)),
                    Err(_) => (vec![a.clone(), b.clone()], am.clone()),
                },
                _ => (vec![a.elide(), b.clone(), a.clone()], M::Elided(am.digest())),
            };
            let with_b = matches!(pattern % 5, 1 | 3 | 4);
            let mut pm = m.add(first_a);
            if with_b {
                pm = pm.add(bm);
            }
            let result = if *api == 0 { Ok(e.add_assertions(&arr)) } else { e.add_assertion_envelopes(&arr).map_err(|r| r.to_string()) };
            Applied { result, predicted: Predicted::Exactly(pm) }
        }
        Op::ReplaceSame(i, o) => {
            let old = e.assertions()[*i].clone();
            let om = m.assertions().iter().find(|x| bridge::dig(&x.digest()) == old.digest().into_owned()).cloned();
            let d = bridge::d32(&old.digest());
            let (newe, newm): (Envelope, Option<M>) = match o {
                None => (old.clone(), om.clone()),
                Some(Obs::Elide) => (old.elide(), Some(M::Elided(d))),
                Some(Obs::Compress) => match (old.compress(), &om) {
                    (Ok(c), Some(x)) if !x.is_obscured() => (c, Some(model_compressed(x))),
                    _ => (old.clone(), om.clone()),
                },
                Some(Obs::Encrypt) => {
                    // the whole assertion element encrypted through the action form
                    let x = old.elide_removing_target_with_action(&old, &ObscureAction::Encrypt(key.clone()));
                    if x.is_encrypted() && !old.is_encrypted() {
                        (x, None)
                    } else {
                        (old.clone(), om.clone())
                    }
                }
            };
            let predicted = match newm {
                Some(nm) => Predicted::Exactly(m.remove(&d).add(nm)),
                // ciphertext made by the library (random nonce): not predicted byte for byte
                None => Predicted::Unpredicted,
            };
            Applied { result: e.replace_assertion(old, newe).map_err(|r| r.to_string()), predicted }
        }
        Op::ImportOpen(kind, 8) => {
            // a NODE whose encrypted / compressed subject declares a digest its content does not have: opening the
            // subject must be refused (a result would carry a digest that disagrees with its children)
            let claimed = M::text("what the subject claims to be").digest();
            let content = M::text("what it really holds").tagged();
            let forged: Result<Envelope, String> = if *kind == 0 {
                Envelope::try_from(key.encrypt_with_digest(content, bridge::dig(&claimed), Some(bc_components::Nonce::from_data_ref([8u8; 12]).unwrap()))).map_err(|r| r.to_string())
            } else {
                Envelope::try_from(Compressed::from_uncompressed_data(content, Some(bridge::dig(&claimed)))).map_err(|r| r.to_string())
            };
            let result = forged.and_then(|x| {
                let node = x.add_assertion("k", "v");
                if *kind == 0 { node.decrypt_subject(&key).map_err(|r| r.to_string()) } else { node.uncompress_subject().map_err(|r| r.to_string()) }
            });
            Applied { result: result.map(|y| e.add_assertion("opened", y)), predicted: Predicted::Error }
        }
        Op::ImportOpen(kind, variant) => {
            // subject and three assertions, written out by the harness encoder in a non-canonical arrangement
            let subj = M::text("imported subject");
            let mut asr: Vec<M> = (0..3).map(|i| M::assertion(M::text("k"), M::text(&format!("v{}", i)))).collect();
            asr.sort_by_key(|x| x.digest());
            let junk_leaf = M::text("not an assertion");
            let junk_known = M::Known(77);
            let junk_wrapped = M::wrapped(asr[2].clone());
            let with_junk = |j: &M| -> Vec<M> {
                // canonical order, two proper assertions and one element that is none
                let mut v = vec![asr[0].clone(), asr[1].clone(), j.clone()];
                v.sort_by_key(|x| x.digest());
                v
            };
            let arranged: Vec<M> = match variant % 8 {
                5 => with_junk(&junk_leaf),
                6 => with_junk(&junk_known),
                7 => with_junk(&junk_wrapped),
                0 => vec![asr[0].clone(), asr[1].clone(), asr[1].clone()],          // repeat, not involving the first
                1 => vec![asr[0].clone(), asr[2].clone(), asr[1].clone()],          // inversion, not involving the first
                2 => vec![asr[0].clone(), asr[0].clone(), asr[1].clone()],          // repeat of the first
                3 => vec![asr[1].clone(), asr[0].clone(), asr[2].clone()],          // inversion at the front
                _ => vec![asr[0].clone(), asr[1].clone(), M::Elided(asr[1].digest())], // repeat through an elided copy
            };
            // bytes of 200([subject, a, b, c]) exactly as arranged
            let mut content: Vec<u8> = vec![0xd8, 0xc8, 0x84];
            content.extend(subj.untagged());
            for a in &arranged {
                content.extend(a.untagged());
            }
            // the digest such content would be given: over the elements as they stand, and over the sorted
            // distinct ones - the element is offered under both declarations
            let as_given = M::Node(Box::new(subj.clone()), arranged.clone()).digest();
            let mut distinct: Vec<M> = Vec::new();
            for a in &arranged {
                if !distinct.iter().any(|x| x.digest() == a.digest()) {
                    distinct.push(a.clone());
                }
            }
            let canonical = M::Node(Box::new(subj.clone()), distinct).digest();
            let mut last: Result<Envelope, String> = Err("not tried".into());
            for d in [as_given, canonical] {
                let opened: Result<Envelope, String> = if *kind == 0 {
                    let msg = key.encrypt_with_digest(content.clone(), bridge::dig(&d), Some(bc_components::Nonce::from_data_ref([9u8; 12]).unwrap()));
                    Envelope::try_from(msg).map_err(|r| r.to_string()).and_then(|x| x.decrypt_subject(&key).map_err(|r| r.to_string()))
                } else {
                    let c = Compressed::from_uncompressed_data(content.clone(), Some(bridge::dig(&d)));
                    Envelope::try_from(c).map_err(|r| r.to_string()).and_then(|x| x.uncompress().map_err(|r| r.to_string()))
                };
                if let Ok(x) = opened {
                    last = Ok(e.add_assertion("opened", x));
                    break;
                } else {
                    last = opened;
                }
            }
            Applied { result: last, predicted: Predicted::Error }
        }
        Op::ReplaceSubjectSharing(which) => {
            let (ns, nm): (Envelope, M) = match which {
                Some(i) => {
                    let a = e.assertions()[*i].clone();
                    let am = m.assertions().iter().find(|x| bridge::dig(&x.digest()) == a.digest().into_owned()).cloned();
                    match am {
                        Some(am) => (Envelope::new("replacement").add_assertion("own", 1).add_assertion_envelope(a).unwrap(), M::text("replacement").add(M::assertion(M::text("own"), M::leaf_item(&crate::cbor::Item::U(1)))).add(am)),
                        None => (e.clone(), m.clone()),
                    }
                }
                None => (e.clone(), m.clone()),
            };
            // documented as: the assertions of the receiver re-added to the new subject
            let mut pm = nm;
            for a in m.sorted_assertions() {
                pm = pm.add(a.clone());
            }
            Applied { result: ok(e.replace_subject(ns)), predicted: Predicted::Exactly(pm) }
        }
        Op::AddSubjectItself => {
            let subj = e.subject();
            let sm = m.subject().clone();
            let mut core = &sm;
            while let M::Node(inner, _) = core {
                core = inner;
            }
            let valid = matches!(core, M::Assertion(..)) || core.is_obscured();
            let result = e.add_assertion_envelope(subj).map_err(|r| r.to_string());
            Applied { result, predicted: if valid { Predicted::Exactly(m.add(sm)) } else { Predicted::Error } }
        }
        Op::AddDup(i) => {
            let a = e.assertions()[*i].clone();
            Applied { result: e.add_assertion_envelope(a).map_err(|r| r.to_string()), predicted: Predicted::Exactly(m.clone()) }
        }
        Op::AddDupObscured(i, o) => {
            let a = e.assertions()[*i].clone();
            let a2 = match o {
                Obs::Elide => a.elide(),
                Obs::Compress => a.compress().unwrap_or(a.clone()),
                Obs::Encrypt => {
                    if a.is_encrypted() {
                        a.clone()
                    } else {
                        a.elide_removing_target_with_action(&a, &ObscureAction::Encrypt(key.clone()))
                    }
                }
            };
            Applied { result: e.add_assertion_envelope(a2).map_err(|r| r.to_string()), predicted: Predicted::Exactly(m.clone()) }
        }
        Op::Remove(i) => {
            let a = e.assertions()[*i].clone();
            let d = bridge::d32(&a.digest());
            Applied { result: ok(e.remove_assertion(a)), predicted: Predicted::Exactly(m.remove(&d)) }
        }
        Op::RemoveAbsent => {
            let a = Envelope::new_assertion("absent-predicate", "absent-object");
            Applied { result: ok(e.remove_assertion(a)), predicted: Predicted::Exactly(m.clone()) }
        }
        Op::Replace(i, s) => {
            let old = e.assertions()[*i].clone();
            let d = bridge::d32(&old.digest());
            let a = bridge::build_a(s, &mut Src::new(&[]));
            let am = bridge::spec_model(s);
            Applied { result: e.replace_assertion(old, a).map_err(|r| r.to_string()), predicted: Predicted::Exactly(m.remove(&d).add(am)) }
        }
        Op::ReplaceSubject(s) => {
            let ns = bridge::build_a(s, &mut Src::new(&[]));
            let nm = bridge::spec_model(s);
            // documented as: the assertions of the receiver re-added to the new subject
            let mut pm = nm;
            for a in m.sorted_assertions() {
                pm = pm.add(a.clone());
            }
            Applied { result: ok(e.replace_subject(ns)), predicted: Predicted::Exactly(pm) }
        }
        Op::Wrap => Applied { result: ok(e.wrap_envelope()), predicted: Predicted::Exactly(M::wrapped(m.clone())) },
        Op::Unwrap => {
            let p = match m.subject() {
                M::Wrapped(i) => Predicted::Exactly((**i).clone()),
                _ => Predicted::Error,
            };
            Applied { result: e.unwrap_envelope().map_err(|r| r.to_string()), predicted: p }
        }
        Op::ElideSet { targets, reveal, action } => {
            let hs = to_hashset(targets);
            let act = match action {
                Obs::Elide => ObscureAction::Elide,
                Obs::Encrypt => ObscureAction::Encrypt(key.clone()),
                Obs::Compress => ObscureAction::Compress,
            };
            let r = e.elide_set_with_action(&hs, *reveal, &act);
            let k = key.clone();
            let hide = move |x: &M| -> M {
                match action {
                    Obs::Elide => x.elided(),
                    Obs::Encrypt => model_encrypted(x, &k, &[0u8; 12]),
                    Obs::Compress => match x {
                        // an element that cannot be compressed (already elided / encrypted) stays as it is
                        M::Elided(_) | M::Encrypted(..) | M::Compressed(..) => x.clone(),
                        _ => model_compressed(x),
                    },
                }
            };
            Applied { result: ok(r), predicted: Predicted::Exactly(m.elide_set(targets, *reveal, &hide)) }
        }
        Op::ElideWhole => Applied { result: ok(e.elide()), predicted: Predicted::Exactly(m.elided()) },
        Op::Compress => {
            let p = match m {
                M::Compressed(..) => Predicted::Exactly(m.clone()),
                M::Elided(_) | M::Encrypted(..) => Predicted::Error,
                _ => Predicted::Exactly(model_compressed(m)),
            };
            Applied { result: e.compress().map_err(|r| r.to_string()), predicted: p }
        }
        Op::CompressSubject => {
            let p = match m.subject() {
                M::Compressed(..) => Predicted::Exactly(m.clone()),
                M::Elided(_) | M::Encrypted(..) => Predicted::Error,
                s => Predicted::Exactly(with_subject(m, model_compressed(s))),
            };
            Applied { result: e.compress_subject().map_err(|r| r.to_string()), predicted: p }
        }
        Op::Uncompress => {
            let p = match m {
                M::Compressed(_, raw) => match model_uncompress(raw) {
                    Some(x) if x.digest() == m.digest() => Predicted::Exactly(x),
                    _ => Predicted::Error,
                },
                _ => Predicted::Error,
            };
            Applied { result: e.uncompress().map_err(|r| r.to_string()), predicted: p }
        }
        Op::UncompressSubject => {
            let p = match m.subject() {
                M::Compressed(d, raw) => match model_uncompress(raw) {
                    Some(x) if &x.digest() == d => Predicted::Exactly(with_subject(m, x)),
                    _ => Predicted::Error,
                },
                _ => Predicted::Exactly(m.clone()),
            };
            Applied { result: e.uncompress_subject().map_err(|r| r.to_string()), predicted: p }
        }
        Op::EncryptSubject | Op::EncryptSubjectOtherKey => {
            let k = if matches!(op, Op::EncryptSubject) { key.clone() } else { other_key() };
            let p = match m.subject() {
                M::Encrypted(..) => Predicted::Error,
                // an elided subject: refused when bare, encrypted as a placeholder inside a node;
                // the properties say nothing about it, so only the invariants are applied
                M::Elided(_) => Predicted::Unpredicted,
                s => Predicted::Exactly(with_subject(m, model_encrypted(s, &k, &[0u8; 12]))),
            };
            Applied { result: e.encrypt_subject(&k).map_err(|r| r.to_string()), predicted: p }
        }
        Op::DecryptSubject | Op::DecryptSubjectWrongKey => {
            let k = if matches!(op, Op::DecryptSubject) { key.clone() } else { SymmetricKey::from_data_ref([0x99u8; 32]).unwrap() };
            let p = match m.subject() {
                M::Encrypted(d, raw) => match model_decrypt(raw, &k) {
                    Some(x) if &x.digest() == d => Predicted::Exactly(with_subject(m, x)),
                    _ => Predicted::Error,
                },
                _ => Predicted::Error,
            };
            Applied { result: e.decrypt_subject(&k).map_err(|r| r.to_string()), predicted: p }
        }
        Op::EncryptWhole => {
            let w = M::wrapped(m.clone());
            Applied { result: ok(e.encrypt(&key)), predicted: Predicted::Exactly(model_encrypted(&w, &key, &[0u8; 12])) }
        }
        Op::DecryptWhole => {
            let p = match m.subject() {
                M::Encrypted(d, raw) => match model_decrypt(raw, &key) {
                    Some(x) if &x.digest() == d => match with_subject(m, x).subject() {
                        M::Wrapped(i) => Predicted::Exactly((**i).clone()),
                        _ => Predicted::Error,
                    },
                    _ => Predicted::Error,
                },
                _ => Predicted::Error,
            };
            Applied { result: e.decrypt(&key).map_err(|r| r.to_string()), predicted: p }
        }
        Op::AddSalt => Applied { result: ok(e.add_salt()), predicted: Predicted::PlusOne(shape_salt, false) },
        Op::AddSignature(k) => {
            let pool = keys::core_pool();
            let sk = &pool.sig[*k % pool.sig.len()];
            Applied { result: ok(e.add_signature_opt(&sk.private, sk.options(), None)), predicted: Predicted::PlusOne(shape_signed, true) }
        }
        Op::AddRecipient(k) => {
            let pool = keys::core_pool();
            let ek = &pool.enc[*k % pool.enc.len()];
            Applied { result: ok(e.add_recipient(&ek.public, &key)), predicted: Predicted::PlusOne(shape_recipient, false) }
        }
        Op::AddType(t) => {
            let am = M::assertion(M::Known(1), M::Known(*t));
            Applied { result: ok(e.add_type(bridge::known(*t))), predicted: Predicted::Exactly(m.add(am)) }
        }
        Op::AddAttachment(ps, v) => {
            let payload = bridge::build_a(ps, &mut Src::new(&[]));
            let pm = bridge::spec_model(ps);
            let vendor = VENDORS[*v as usize % VENDORS.len()];
            let conforms = if *v % 2 == 0 { Some("https://example.com/v1") } else { None };
            let mut obj = M::wrapped(pm).add(M::assertion(M::Known(51), M::text(vendor)));
            if let Some(c) = conforms {
                obj = obj.add(M::assertion(M::Known(52), M::text(c)));
            }
            let am = M::assertion(M::Known(50), obj);
            Applied { result: ok(e.add_attachment(payload, vendor, conforms)), predicted: Predicted::Exactly(m.add(am)) }
        }
        Op::AddAssertionSalted(s) => {
            let a = bridge::build_a(s, &mut Src::new(&[]));
            Applied { result: e.add_assertion_envelope_salted(a, true).map_err(|r| r.to_string()), predicted: Predicted::PlusOne(shape_salted_assertion, false) }
        }
        Op::RoundTrip => Applied { result: Envelope::try_from_cbor_data(e.to_cbor_data()).map_err(|r| r.to_string()), predicted: Predicted::Exactly(m.clone()) },
    }
}

/// Judge a step: `before` (model of the state before), the op's prediction, the library result.
/// Returns the model of the new state (the read-out of the library result, or `before` on a
/// legitimate error).
pub fn judge(before: &M, applied: &Applied, after_readout: Option<&M>) -> Result<(), String> {
    match (&applied.predicted, &applied.result) {
        (Predicted::Exactly(pm), Ok(_)) => {
            let lm = after_readout.expect("readout of Ok result");
            bridge::agree(lm, pm).map_err(|s| format!("result differs from the documented effect: {} (expected {} ; got {})", s, pm.show(), lm.show()))
        }
        (Predicted::Exactly(pm), Err(e)) => Err(format!("operation failed ({}) but the documentation says it yields {}", e, pm.show())),
        (Predicted::Error, Ok(_)) => Err(format!("operation succeeded but must be refused; got {}", after_readout.map(|x| x.show()).unwrap_or_default())),
        (Predicted::Error, Err(_)) => Ok(()),
        (Predicted::PlusOne(shape, allow_zero), Ok(_)) => {
            let lm = after_readout.expect("readout of Ok result");
            let old: BTreeSet<D32> = before.assertions().iter().map(|a| a.digest()).collect();
            let new: Vec<&M> = lm.assertions().iter().filter(|a| !old.contains(&a.digest())).collect();
            // a deterministic operation repeated: the equal assertion is already there (possibly in obscured
            // form, which has the same digest), so nothing is added
            if new.is_empty() && *allow_zero {
                return bridge::agree(lm, before).map_err(|s| format!("receiver content changed: {}", s));
            }
            if new.len() != 1 {
                return Err(format!("expected exactly one new assertion element, found {}", new.len()));
            }
            shape(new[0])?;
            let expect = before.add(new[0].clone());
            bridge::agree(lm, &expect).map_err(|s| format!("receiver content changed: {}", s))
        }
        (Predicted::PlusOne(..), Err(e)) => Err(format!("operation failed: {}", e)),
        (Predicted::Unpredicted, _) => Ok(()),
    }
}
