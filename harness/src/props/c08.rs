//! C08 — symmetric encryption round-trips, keeps digests and is bound to them.

use crate::bridge::{self, build_a, check_digests, d32, dig, spec_model};
use crate::cbor::{self, RItem};
use crate::engine::{Ctx, Outcome, Prop};
use crate::gen::{self, GenCfg};
use crate::model::{self, M};
use crate::props::c02::same_positions;
use crate::src::Src;
use crate::{check, nopanic, tryp};
use bc_components::{DigestProvider, Nonce, SymmetricKey};
use bc_envelope::prelude::*;
use bc_envelope::known_values;

pub fn prop() -> Prop {
    Prop {
        id: "C08",
        run,
        max_len: 600,
        quick: 100_000,
        thorough: 2_000_000,
        rule: "choice sequence -> envelope (every subject case: leaf, known value, wrapped, assertion, node, compressed, elided, encrypted; with and without assertions) x generated 32-byte key x optional fixed nonce; encrypt_subject/decrypt_subject and encrypt/decrypt round trips; then faults on the encrypted element taken apart with the harness codec, exactly one of {bit flip in ciphertext / nonce / tag / declared digest, declared digest replaced by another valid digest, ciphertext truncated / extended / replaced by another message's}, re-assembled into the envelope and decoded; then key-holder mis-declarations key.encrypt_with_digest(cbor(A), digest(B)), A != B, bare and as the subject of a node, and a plaintext that is not an envelope. oracle: encrypted form has the specification digest of the original at every surviving position; decrypt with the same key is identical to the original (structure, bytes, is_identical_to); wrong key, every fault and every mis-declaration give Err (never Ok, never a panic); a second encrypt_subject is refused. non-trivial: subject is not a bare leaf, or >=1 fault reached decrypt; distinct by FNV-64 of (encoding, key); malformed digest declarations by a key holder (untagged / raw / 31-byte / trailing byte / wrong tag / single byte / application data) through Envelope::try_from and through the decoder (bare and as a node's subject): never an envelope out of decrypt_subject, never a panic; the encrypted whole with assertions added afterwards still decrypts to the original; if an elided subject's placeholder is encrypted, the result opens again to the original",
        assumptions: &["ChaCha20-Poly1305 forgery probability is negligible", "an elided subject: refusal or placeholder encryption are both tolerated (not covered by the property)"],
        extra: None,
    }
}

fn with_subject(m: &M, s: M) -> M {
    match m {
        M::Node(_, a) => M::Node(Box::new(s), a.clone()),
        _ => s,
    }
}

fn strict_eq(a: &M, b: &M) -> bool {
    fn norm(m: &M) -> M {
        match m {
            M::Node(s, a) => {
                let mut v: Vec<M> = a.iter().map(norm).collect();
                v.sort_by_key(|x| x.digest());
                M::Node(Box::new(norm(s)), v)
            }
            M::Assertion(p, o) => M::assertion(norm(p), norm(o)),
            M::Wrapped(i) => M::wrapped(norm(i)),
            o => o.clone(),
        }
    }
    norm(a) == norm(b)
}

pub fn run(data: &[u8], ctx: &mut Ctx) -> Outcome {
    let mut src = Src::new(data);
    let mut cfg = GenCfg::new(4, 30);
    let spec = gen::gen_spec(&mut src, &mut cfg);
    let model = spec_model(&spec);
    let key_bytes = {
        let mut k = src.bytes(32);
        k[0] |= 1;
        k
    };
    let key = SymmetricKey::from_data_ref(&key_bytes).unwrap();
    let other = {
        let mut k = key_bytes.clone();
        k[src.below(32)] ^= 1 << src.below(8);
        SymmetricKey::from_data_ref(&k).unwrap()
    };
    let nonce: Option<Nonce> = if src.bool() { Some(Nonce::from_data_ref(src.bytes(12)).unwrap()) } else { None };
    ctx.fingerprint(&model.tagged());
    ctx.fingerprint(&key_bytes);
    ctx.sample_with(|| model.show());
    let e = nopanic!(ctx, build_a(&spec, &mut src), "build", "C08/build");
    let m = tryp!(ctx, bridge::read_out(&e), "readout", "C08/readout");
    ctx.class(&format!("subject:{:?}", m.subject().kind()));
    if matches!(m, M::Node(..)) {
        ctx.class("with-assertions");
    }
    let orig_bytes = e.to_cbor_data();

    // --- encrypt_subject
    let enc = nopanic!(ctx, e.encrypt_subject_opt(&key, nonce.clone()), "encrypt_subject", "C08/encrypt_subject");
    match m.subject() {
        M::Encrypted(..) => {
            check!(ctx, enc.is_err(), "re-encrypt", "C08/re-encrypt", "encrypt_subject accepted an already encrypted subject: {}", m.show());
            ctx.class("refused:already-encrypted");
        }
        M::Elided(_) => {
            ctx.class("elided-subject");
            // whether an elided subject is refused or its placeholder encrypted is not the property's business;
            // but IF the library hands out an encrypted form, that form has the original's digest and opens,
            // with the same key, to the envelope it was made from
            if let Ok(enc) = enc {
                check!(ctx, d32(&enc.digest()) == model.digest(), "encrypt_subject", "C08/encrypt_subject/digest", "encrypted form of {} (elided subject) does not have the original's digest", m.show());
                if enc.to_cbor_data() != orig_bytes {
                    ctx.class("elided-subject:placeholder-encrypted");
                    let dec = nopanic!(ctx, enc.decrypt_subject(&key), "decrypt_subject", "C08/decrypt_subject/elided-subject");
                    let dec = tryp!(ctx, dec.map_err(|x| format!("the library encrypted the elided subject of {} but cannot decrypt its own result with the same key: {}", m.show(), x)), "decrypt_subject", "C08/decrypt_subject/elided-subject");
                    check!(ctx, dec.to_cbor_data() == orig_bytes, "decrypt_subject", "C08/decrypt_subject/elided-subject", "decrypt(encrypt(e)) differs from e = {} (elided subject)", m.show());
                    let bad = nopanic!(ctx, enc.decrypt_subject(&other), "wrong-key", "C08/wrong-key");
                    check!(ctx, bad.is_err(), "wrong-key", "C08/wrong-key", "decrypt_subject succeeded with a different key (elided subject)");
                }
            }
        }
        _ => {
            let enc = tryp!(ctx, enc.map_err(|x| format!("encrypt_subject failed on {}: {}", m.show(), x)), "encrypt_subject", "C08/encrypt_subject");
            let em = nopanic!(ctx, check_digests(&enc), "encrypt_subject", "C08/encrypt_subject");
            let em = tryp!(ctx, em, "encrypt_subject", "C08/encrypt_subject");
            check!(ctx, em.digest() == model.digest() && d32(&enc.digest()) == model.digest(), "encrypt_subject", "C08/encrypt_subject/digest", "encrypted form of {} does not have the original's digest", m.show());
            check!(ctx, matches!(em.subject(), M::Encrypted(..)), "encrypt_subject", "C08/encrypt_subject", "subject of the result is not encrypted: {}", em.show());
            check!(ctx, em.subject().digest() == m.subject().digest(), "encrypt_subject", "C08/encrypt_subject/digest", "encrypted subject does not declare the subject's digest");
            let mut changed = 0;
            tryp!(ctx, same_positions(&m, &em, &mut Vec::new(), &mut changed), "encrypt_subject", "C08/encrypt_subject/digest");
            check!(ctx, em.assertions().len() == m.assertions().len(), "encrypt_subject", "C08/encrypt_subject", "assertions changed");

            // the ciphertext really is the subject: opened with bc-components directly
            if let M::Encrypted(_, raw) = em.subject() {
                let hidden = crate::ops::model_decrypt(raw, &key);
                check!(ctx, hidden.is_some(), "encrypt_subject", "C08/encrypt_subject/ciphertext", "ciphertext does not open with the key / is not an envelope");
                check!(ctx, strict_eq(&hidden.unwrap(), m.subject()), "encrypt_subject", "C08/encrypt_subject/ciphertext", "ciphertext content is not the original subject");
                check!(ctx, crate::ops::model_decrypt(raw, &other).is_none(), "encrypt_subject", "C08/encrypt_subject/ciphertext", "ciphertext opens with another key");
            }

            // decrypt with the right key
            let dec = nopanic!(ctx, enc.decrypt_subject(&key), "decrypt_subject", "C08/decrypt_subject");
            let dec = tryp!(ctx, dec.map_err(|x| format!("decrypt_subject with the right key failed on {}: {}", m.show(), x)), "decrypt_subject", "C08/decrypt_subject");
            let dm = tryp!(ctx, bridge::read_out(&dec), "readout", "C08/readout");
            check!(ctx, strict_eq(&dm, &m), "decrypt_subject", "C08/decrypt_subject/identical", "decrypt(encrypt(e)) differs from e: {} vs {}", dm.show(), m.show());
            check!(ctx, dec.to_cbor_data() == orig_bytes, "decrypt_subject", "C08/decrypt_subject/identical", "decrypt(encrypt(e)) bytes differ");
            check!(ctx, dec.is_identical_to(&e) && dec == e, "decrypt_subject", "C08/decrypt_subject/identical", "decrypt(encrypt(e)) is not identical to e");
            // wrong key
            let bad = nopanic!(ctx, enc.decrypt_subject(&other), "wrong-key", "C08/wrong-key");
            check!(ctx, bad.is_err(), "wrong-key", "C08/wrong-key", "decrypt_subject succeeded with a different key on {}", m.show());
            // second encryption refused
            let again = nopanic!(ctx, enc.encrypt_subject(&key), "re-encrypt", "C08/re-encrypt");
            check!(ctx, again.is_err(), "re-encrypt", "C08/re-encrypt", "encrypt_subject accepted an already encrypted subject");
            let again2 = nopanic!(ctx, enc.encrypt_subject(&other), "re-encrypt", "C08/re-encrypt");
            check!(ctx, again2.is_err(), "re-encrypt", "C08/re-encrypt", "encrypt_subject (other key) accepted an already encrypted subject");
            // through a serialisation round trip as well
            let enc2 = nopanic!(ctx, Envelope::try_from_cbor_data(enc.to_cbor_data()), "roundtrip", "C08/roundtrip");
            let enc2 = tryp!(ctx, enc2.map_err(|x| x.to_string()), "roundtrip", "C08/roundtrip");
            let dec2 = nopanic!(ctx, enc2.decrypt_subject(&key), "roundtrip", "C08/roundtrip");
            let dec2 = tryp!(ctx, dec2.map_err(|x| x.to_string()), "roundtrip", "C08/roundtrip");
            check!(ctx, dec2.to_cbor_data() == orig_bytes, "roundtrip", "C08/roundtrip", "decrypt after encode/decode differs");

            // --- faults
            if let M::Encrypted(d, raw) = em.subject() {
                let p = cbor::parse(raw).expect("encrypted element parses");
                let base = cbor::to_raw(raw, &p.root);
                let n_faults = 1 + src.below(4);
                for _ in 0..n_faults {
                    let mut r = base.clone();
                    let mut declared = *d;
                    let kind;
                    {
                        let RItem::Tag(_, _, inner) = &mut r else { unreachable!() };
                        let RItem::A(xs, ..) = &mut **inner else { unreachable!() };
                        kind = src.below(9);
                        match kind {
                            0 | 1 | 2 => {
                                // bit flip in ciphertext / nonce / tag
                                if let RItem::B(b, _) = &mut xs[kind] {
                                    if b.is_empty() {
                                        continue;
                                    }
                                    let i = src.below(b.len());
                                    b[i] ^= 1 << src.below(8);
                                }
                            }
                            3 => {
                                // bit flip in the declared digest (inside the AAD)
                                if let RItem::B(b, _) = &mut xs[3] {
                                    let i = b.len() - 32 + src.below(32);
                                    b[i] ^= 1 << src.below(8);
                                    declared.copy_from_slice(&b[b.len() - 32..]);
                                }
                            }
                            4 => {
                                // declared digest replaced by another valid digest of this envelope
                                let els = m.elements();
                                let od = els[src.below(els.len())].digest();
                                if od == *d {
                                    continue;
                                }
                                if let RItem::B(b, _) = &mut xs[3] {
                                    let l = b.len();
                                    b[l - 32..].copy_from_slice(&od);
                                    declared = od;
                                }
                            }
                            5 => {
                                if let RItem::B(b, _) = &mut xs[0] {
                                    if b.is_empty() {
                                        continue;
                                    }
                                    let l = src.below(b.len());
                                    b.truncate(l);
                                }
                            }
                            6 => {
                                if let RItem::B(b, _) = &mut xs[0] {
                                    let extra = 1 + src.below(4);
                                    b.extend(src.bytes(extra));
                                }
                            }
                            7 => {
                                // ciphertext of another message under the same key
                                let other_msg = key.encrypt_with_digest(b"\xd8\xc8\xd8\xc9\x01".to_vec(), dig(d), None::<Nonce>);
                                xs[0] = RItem::B(other_msg.ciphertext().clone(), 0);
                            }
                            _ => {
                                // nonce and tag swapped in from another message
                                let other_msg = key.encrypt_with_digest(e.subject().tagged_cbor().to_cbor_data(), dig(d), None::<Nonce>);
                                xs[1] = RItem::B(other_msg.nonce().data().to_vec(), 0);
                            }
                        }
                    }
                    let names = ["ct-bit", "nonce-bit", "tag-bit", "digest-bit", "digest-replaced", "ct-truncated", "ct-extended", "ct-replaced", "nonce-replaced"];
                    ctx.class(&format!("fault:{}", names[kind]));
                    let fkey = format!("C08/fault/{}", names[kind]);
                    let tampered = with_subject(&em, M::Encrypted(declared, cbor::emit(&r)));
                    let bytes = tampered.tagged();
                    let te = nopanic!(ctx, Envelope::try_from_cbor_data(bytes.clone()), "fault", &fkey);
                    match te {
                        Err(_) => {
                            ctx.class("fault-rejected-at-decode");
                        }
                        Ok(te) => {
                            let r = nopanic!(ctx, te.decrypt_subject(&key), "fault", &fkey);
                            check!(ctx, r.is_err(), "fault", &fkey, "decrypt_subject returned an envelope after tampering ({}) with the encrypted subject of {}", names[kind], m.show());
                            ctx.nontrivial = true;
                        }
                    }
                }
            }
        }
    }

    // --- whole-envelope form
    let we = nopanic!(ctx, e.encrypt(&key), "encrypt", "C08/encrypt");
    let wm = nopanic!(ctx, check_digests(&we), "encrypt", "C08/encrypt");
    let wm = tryp!(ctx, wm, "encrypt", "C08/encrypt");
    check!(ctx, matches!(wm, M::Encrypted(..)) && wm.digest() == M::wrapped(model.clone()).digest(), "encrypt", "C08/encrypt/digest", "encrypt() result is not an encrypted element with the wrapped original's digest");
    let wd = nopanic!(ctx, we.decrypt(&key), "decrypt", "C08/decrypt");
    let wd = tryp!(ctx, wd.map_err(|x| format!("decrypt() with the right key failed: {}", x)), "decrypt", "C08/decrypt");
    check!(ctx, wd.to_cbor_data() == orig_bytes && wd.is_identical_to(&e), "decrypt", "C08/decrypt/identical", "decrypt(encrypt(e)) differs from e = {}", m.show());
    // the encrypted whole with assertions added afterwards (a note, a signature, a recipient): decrypt()
    // = decrypt_subject + unwrap still returns the original
    {
        let decorated = we.add_assertion(known_values::NOTE, "added to the encrypted form").add_assertion("C08-later", 1);
        let dd = nopanic!(ctx, decorated.decrypt(&key), "decrypt", "C08/decrypt/decorated");
        let dd = tryp!(ctx, dd.map_err(|x| format!("decrypt() of an encrypted whole that was given assertions afterwards failed: {}", x)), "decrypt", "C08/decrypt/decorated");
        check!(ctx, dd.to_cbor_data() == orig_bytes, "decrypt", "C08/decrypt/decorated", "decrypt() of a decorated encrypted whole differs from the original");
        let dbad = nopanic!(ctx, decorated.decrypt(&other), "wrong-key", "C08/wrong-key");
        check!(ctx, dbad.is_err(), "wrong-key", "C08/wrong-key", "decrypt() of a decorated encrypted whole succeeded with a different key");
        let rt = nopanic!(ctx, Envelope::try_from_cbor_data(decorated.to_cbor_data()).map_err(|x| x.to_string()).and_then(|x| x.decrypt(&key).map_err(|y| y.to_string())).map(|x| x.to_cbor_data()), "decrypt", "C08/decrypt/decorated");
        check!(ctx, rt.as_ref() == Ok(&orig_bytes), "decrypt", "C08/decrypt/decorated", "decrypt() after encode/decode of a decorated encrypted whole: {:?}", rt.as_ref().map(|_| "other bytes"));
    }
    let wbad = nopanic!(ctx, we.decrypt(&other), "wrong-key", "C08/wrong-key");
    check!(ctx, wbad.is_err(), "wrong-key", "C08/wrong-key", "decrypt() succeeded with a different key");

    // --- element-level Encrypt action on the whole envelope
    let ae = nopanic!(ctx, e.elide_removing_target_with_action(&e, &ObscureAction::Encrypt(key.clone())), "action", "C08/action");
    if !m.is_obscured() {
        let am = tryp!(ctx, bridge::read_out(&ae), "readout", "C08/readout");
        check!(ctx, matches!(am, M::Encrypted(..)) && am.digest() == model.digest(), "action", "C08/action", "Encrypt action on the root did not produce an encrypted element with the root digest");
        let ad = nopanic!(ctx, ae.decrypt_subject(&key), "action", "C08/action");
        let ad = tryp!(ctx, ad.map_err(|x| format!("decrypt of an element made by the Encrypt action failed: {}", x)), "action", "C08/action");
        check!(ctx, ad.to_cbor_data() == orig_bytes, "action", "C08/action", "decrypting the Encrypt-action element does not give back the original");
    }

    // --- Encrypt action on an inner element: the ciphertext element, taken out of the result, decrypts to
    // exactly the element it replaced
    {
        let els = m.elements();
        let pick = els[src.below(els.len())];
        // (skipped when an already obscured element shares the digest: the walk below could not tell the
        // element made by this action from the one that was there before)
        if !pick.is_obscured() && pick.digest() != m.digest() && !els.iter().any(|x| x.is_obscured() && x.digest() == pick.digest()) {
            let pd = pick.digest();
            let t: std::collections::BTreeSet<crate::model::D32> = [pd].into_iter().collect();
            let r = nopanic!(ctx, e.elide_removing_set_with_action(&bridge::to_hashset(&t), &ObscureAction::Encrypt(key.clone())), "inner", "C08/inner");
            check!(ctx, r.digest() == e.digest(), "inner", "C08/inner/digest", "encrypting an inner element changed the root digest");
            // find an encrypted element with that digest in the result
            let found: std::cell::RefCell<Option<Envelope>> = std::cell::RefCell::new(None);
            let visitor = |env: Envelope, _l: usize, _e: EdgeType, _p: Option<()>| -> Option<()> {
                if env.is_encrypted() && d32(&env.digest()) == pd && found.borrow().is_none() {
                    *found.borrow_mut() = Some(env);
                }
                None
            };
            r.walk(false, &visitor);
            if let Some(enc_el) = found.into_inner() {
                let dec = nopanic!(ctx, enc_el.decrypt_subject(&key), "inner", "C08/inner");
                let dec = tryp!(ctx, dec.map_err(|x| format!("an element encrypted by the Encrypt action does not decrypt: {}", x)), "inner", "C08/inner/decrypt");
                let dm = tryp!(ctx, bridge::read_out(&dec), "readout", "C08/readout");
                // several elements may share the digest in different forms (plain / compressed, a known value and
                // the equal tagged leaf): the decrypted element must be one of them
                let forms: Vec<&M> = els.iter().filter(|x| x.digest() == pd).cloned().collect();
                check!(ctx, forms.iter().any(|f| strict_eq(&dm, f)), "inner", "C08/inner/identical", "decrypting an inner element encrypted by the action gives {} which is none of the original elements with that digest ({})", dm.show(), pick.show());
                let bad = nopanic!(ctx, enc_el.decrypt_subject(&other), "inner", "C08/inner");
                check!(ctx, bad.is_err(), "inner", "C08/inner/wrong-key", "inner encrypted element opens with another key");
                ctx.class("inner-element-encrypted");
            }
        }
    }

    // --- mis-declaration by a key holder
    let b_env = if src.bool() { e.add_assertion("C08-other", src.below(100) as u64) } else { Envelope::new(src.u32()) };
    if b_env.digest() != e.digest() {
        let variants: Vec<(&str, Vec<u8>, bc_components::Digest)> = vec![
            ("content-A-digest-B", e.tagged_cbor().to_cbor_data(), b_env.digest().into_owned()),
            ("content-B-digest-A", b_env.tagged_cbor().to_cbor_data(), e.digest().into_owned()),
            ("not-an-envelope", vec![0x65, b'h', b'e', b'l', b'l', b'o'], e.digest().into_owned()),
            ("untagged-envelope", e.untagged_cbor().to_cbor_data(), e.digest().into_owned()),
            ("empty-plaintext", vec![], e.digest().into_owned()),
        ];
        for (name, plain, declared) in variants {
            if name == "untagged-envelope" {
                // an untagged encoding that happens to parse as a tagged envelope (a wrapped subject) is a
                // different, correctly-declared message only if digests agree — skip the ambiguous shape
                if matches!(m, M::Wrapped(_)) {
                    continue;
                }
            }
            ctx.class(&format!("misdeclared:{}", name));
            let fkey = format!("C08/misdeclared/{}", name);
            let msg = key.encrypt_with_digest(plain, declared, None::<Nonce>);
            let bare = nopanic!(ctx, Envelope::try_from(msg), "misdeclared", &fkey);
            let bare = tryp!(ctx, bare.map_err(|x| x.to_string()), "misdeclared", &fkey);
            let r = nopanic!(ctx, bare.decrypt_subject(&key), "misdeclared", &fkey);
            check!(ctx, r.is_err(), "misdeclared", &fkey, "decrypt_subject accepted a ciphertext whose plaintext does not hash to the declared digest ({})", name);
            let as_subject = bare.add_assertion("p", "o");
            let r = nopanic!(ctx, as_subject.decrypt_subject(&key), "misdeclared", &fkey);
            check!(ctx, r.is_err(), "misdeclared", &fkey, "decrypt_subject (subject of a node) accepted a mis-declared ciphertext ({})", name);
            let r = nopanic!(ctx, bare.decrypt(&key), "misdeclared", &fkey);
            check!(ctx, r.is_err(), "misdeclared", &fkey, "decrypt() accepted a mis-declared ciphertext ({})", name);
            ctx.nontrivial = true;
        }
    }
    // --- malformed digest declaration by a key holder: the additional data is there but is not the CBOR
    // of a digest. Nothing the library hands out as an envelope may then decrypt to content (there is no
    // digest the content could be bound to), and no step may panic. (drawn after everything older)
    if src.chance(120) {
        let dbytes: Vec<u8> = e.digest().data().to_vec();
        let tagged_digest = e.digest().into_owned().tagged_cbor().to_cbor_data();
        let which = src.below(7);
        let aad: Vec<u8> = match which {
            0 => {
                // the digest bytes as a CBOR byte string without the digest tag
                let mut v = vec![0x58, 0x20];
                v.extend(&dbytes);
                v
            }
            1 => dbytes.clone(), // raw bytes, not CBOR at all
            2 => {
                // right tag, 31 bytes
                let mut v = tagged_digest.clone();
                let l = v.len();
                v[l - 33] = 0x1f; // 0x58 0x20 -> 0x58 0x1f
                v.truncate(l - 1);
                v
            }
            3 => {
                // well-formed digest followed by one more byte
                let mut v = tagged_digest.clone();
                v.push(src.byte());
                v
            }
            4 => {
                // another tag around 32 bytes
                let mut v = vec![0xd8, 0x25, 0x58, 0x20];
                v.extend(&dbytes);
                v
            }
            5 => vec![src.byte() | 1],
            _ => {
                // application data: a text string
                let mut v = vec![0x6b];
                v.extend(b"application");
                v
            }
        };
        let names = ["untagged-digest", "raw-digest-bytes", "31-byte-digest", "digest-plus-trailing-byte", "wrong-tag", "single-byte", "application-aad"];
        ctx.class(&format!("malformed-declaration:{}", names[which]));
        let fkey = format!("C08/malformed-declaration/{}", names[which]);
        let msg = key.encrypt(e.tagged_cbor().to_cbor_data(), Some(aad.clone()), nonce.clone());
        let element = msg.tagged_cbor().to_cbor_data();
        let by_conversion = nopanic!(ctx, Envelope::try_from(msg).map_err(|x| x.to_string()), "malformed-declaration", &fkey);
        let mut bytes = vec![0xd8, 0xc8];
        bytes.extend(&element);
        let by_decoding = nopanic!(ctx, Envelope::try_from_cbor_data(bytes).map_err(|x| x.to_string()), "malformed-declaration", &fkey);
        // as the subject of a node, through the decoder
        let assertion = Envelope::new_assertion("p", "o");
        let mut nb = vec![0xd8, 0xc8, 0x82];
        nb.extend(&element);
        nb.extend(assertion.untagged_cbor().to_cbor_data());
        let as_subject = nopanic!(ctx, Envelope::try_from_cbor_data(nb).map_err(|x| x.to_string()), "malformed-declaration", &fkey);
        for (route, got) in [("conversion", by_conversion), ("decoding", by_decoding), ("decoding-as-subject", as_subject)] {
            if let Ok(x) = got {
                ctx.class("malformed-declaration:accepted-as-envelope");
                let r = nopanic!(ctx, x.decrypt_subject(&key).map(|y| y.format_flat()).map_err(|z| z.to_string()), "malformed-declaration", &fkey);
                check!(ctx, r.is_err(), "malformed-declaration", &fkey, "an encrypted element whose digest declaration is malformed ({}, accepted by {}) decrypts to an envelope bound to no digest: {:?}", names[which], route, r);
                let _ = nopanic!(ctx, x.digest().into_owned(), "malformed-declaration", &fkey);
                let _ = nopanic!(ctx, x.to_cbor_data(), "malformed-declaration", &fkey);
            }
        }
        ctx.nontrivial = true;
    }
    // --- decrypt on something not encrypted
    if !matches!(m.subject(), M::Encrypted(..)) {
        let r = nopanic!(ctx, e.decrypt_subject(&key), "not-encrypted", "C08/not-encrypted");
        check!(ctx, r.is_err(), "not-encrypted", "C08/not-encrypted", "decrypt_subject succeeded on a subject that is not encrypted");
    }
    if !matches!(m.subject(), M::Leaf(_)) {
        ctx.nontrivial = true;
    }
    let _ = model::hex32;
    Outcome::Pass
}
