use crate::engine::Prop;

pub mod c01;

pub fn all() -> Vec<Prop> {
    vec![c01::prop()]
}

pub fn find(id: &str) -> Option<Prop> {
    all().into_iter().find(|p| p.id == id)
}
