//! C19 — attachments and type assertions are retrievable exactly as added.

use crate::bridge::{self, build_a, d32};
use crate::engine::{Ctx, Outcome, Prop};
use crate::gen::{self, GenCfg};
use crate::model::{D32, M};
use crate::src::Src;
use crate::{check, nopanic, tryp};
use bc_components::DigestProvider;
use bc_envelope::prelude::*;
use bc_envelope::{known_values, Attachments, KnownValue};
use std::collections::BTreeSet;

pub fn prop() -> Prop {
    Prop {
        id: "C19",
        run,
        max_len: 600,
        quick: 25_000,
        thorough: 500_000,
        rule: "choice sequence -> base envelope (with unrelated assertions) x multiset of 1-5 attachments (payload envelope of any shape, vendor from a pool of 4 incl. the empty string, conformsTo from {None, 3 values}) with repeated vendors / conformsTo / identical triples, added through add_attachment, Envelope::new_attachment + add_assertion_envelope, or the Attachments container x all four filter combinations with present and absent values; malformed attachment assertions: vendor removed, two vendors, extra assertion on the object, payload not wrapped, non-string vendor / conformsTo, two conformsTo, attachment salted; types: 0-4 known-value and string / envelope types, queried with present and absent types. oracle: attachments() as a set of digests = model set; each attachment_payload is byte-identical to the payload, vendor and conformsTo equal; each filter = model filter; single-result form: 0 => Err, 1 => it, >1 => Err; with any malformed attachment present attachments() and validate_attachment are Err; Attachments::try_from_envelope / add_to_envelope round trip; has_type / has_type_envelope / check_type* true iff the type was added, types() = model set, get_type Ok iff exactly one. non-trivial: >=2 attachments with a filter matching != 1, or a malformed case, or >=2 types; distinct by FNV-64 of the envelope encoding; with a malformed attachment present all 30 filter combinations of both query forms must be Err; a type added through a salted or annotated 'isA' assertion; the Attachments container written onto the envelope it came from, twice, and grown by one; predicates 'attachment' / 'isA' / 'vendor' / 'conformsTo' obscured after the fact (same attachments and types reported); an attachment object under another predicate is not an attachment; the object of an 'isA' assertion obscured; near-miss filters (letter case, trailing / missing character) match nothing",
        assumptions: &["the base envelope is generated without 'attachment' / 'isA' assertions of its own"],
        extra: None,
    }
}

const VENDORS: [&str; 4] = ["com.example", "org.verif", "", "com.example.sub"];
const CONFORMS: [Option<&str>; 4] = [None, Some("https://example.com/v1"), Some("v2"), Some("")];

struct Att {
    payload: Envelope,
    /// every byte form under which a payload with this digest was attached (an elided and a plain
    /// copy of the same payload have the same attachment digest; either may be the one kept)
    payload_bytes: Vec<Vec<u8>>,
    vendor: &'static str,
    conforms: Option<&'static str>,
    digest: D32,
}

fn att_model(payload: &M, vendor: &str, conforms: Option<&str>) -> M {
    let mut obj = M::wrapped(payload.clone()).add(M::assertion(M::Known(51), M::text(vendor)));
    if let Some(c) = conforms {
        obj = obj.add(M::assertion(M::Known(52), M::text(c)));
    }
    M::assertion(M::Known(50), obj)
}

pub fn run(data: &[u8], ctx: &mut Ctx) -> Outcome {
    let mut src = Src::new(data);
    let mut cfg = GenCfg::new(3, 10);
    let base_spec = gen::gen_spec(&mut src, &mut cfg);
    let mut base = nopanic!(ctx, build_a(&base_spec, &mut src), "build", "C19/build");
    let bm = tryp!(ctx, bridge::read_out(&base), "readout", "C19/readout");
    // the base must not carry attachment / isA assertions of its own (plain, decorated or elided-predicate)
    let att_d = M::Known(50).digest();
    let isa_d = M::Known(1).digest();
    // (repeated: removing the last outer assertion of an envelope whose subject is a node exposes that
    // node's own assertions at the top level)
    let mut bm = bm;
    loop {
        let mut removed = false;
        for a in bm.assertions() {
            if let M::Assertion(p, _) = a.subject() {
                if p.digest() == att_d || p.digest() == isa_d {
                    base = base.remove_assertion(bridge::build_b(a).unwrap());
                    removed = true;
                }
            }
        }
        bm = tryp!(ctx, bridge::read_out(&base), "readout", "C19/readout");
        if !removed {
            break;
        }
    }
    let mut e = base.clone();

    // ---- attachments
    let n = 1 + src.weighted(&[30, 30, 20, 12, 8]);
    let mut atts: Vec<Att> = Vec::new();
    let mut container = Attachments::new();
    let via_container = src.chance(50);
    for _ in 0..n {
        let (payload, pm) = if !atts.is_empty() && src.chance(40) {
            // identical payload again (same or different vendor)
            let p = atts[src.below(atts.len())].payload.clone();
            let pm = bridge::read_out(&p).unwrap();
            (p, pm)
        } else {
            let mut cfg = GenCfg::new(3, 10);
            let ps = gen::gen_spec(&mut src, &mut cfg);
            let p = nopanic!(ctx, build_a(&ps, &mut src), "build", "C19/build");
            let pm = tryp!(ctx, bridge::read_out(&p), "readout", "C19/readout");
            (p, pm)
        };
        let vendor = VENDORS[src.below(VENDORS.len())];
        let conforms = CONFORMS[src.below(CONFORMS.len())];
        let am = att_model(&pm, vendor, conforms);
        let digest = am.digest();
        // the generated base may hold this very assertion already, in obscured form (same digest): adding it
        // again changes nothing, and an obscured attachment cannot be read - not a case for this check
        if bm.assertions().iter().any(|a| a.digest() == digest) {
            ctx.class("assertion-already-present-obscured");
            return Outcome::Pass;
        }
        if via_container {
            container.add(payload.clone(), vendor, conforms);
        } else if src.bool() {
            e = nopanic!(ctx, e.add_attachment(payload.clone(), vendor, conforms), "add", "C19/add");
        } else {
            let a = nopanic!(ctx, Envelope::new_attachment(payload.clone(), vendor, conforms), "add", "C19/add");
            let am2 = tryp!(ctx, bridge::read_out(&a), "readout", "C19/readout");
            tryp!(ctx, bridge::agree(&am2, &am).map_err(|s| format!("new_attachment does not have the documented shape: {}", s)), "add", "C19/add/shape");
            e = tryp!(ctx, e.add_assertion_envelope(a).map_err(|x| x.to_string()), "add", "C19/add");
        }
        if let Some(existing) = atts.iter_mut().find(|x| x.digest == digest) {
            existing.payload_bytes.push(payload.to_cbor_data());
        } else {
            atts.push(Att { payload_bytes: vec![payload.to_cbor_data()], payload, vendor, conforms, digest });
        }
    }
    if via_container {
        ctx.class("via-Attachments-container");
        e = nopanic!(ctx, container.add_to_envelope(e.clone()), "add", "C19/add");
    }
    ctx.fingerprint(&e.to_cbor_data());
    ctx.class(&format!("attachments={}", atts.len()));
    let want_all: BTreeSet<D32> = atts.iter().map(|a| a.digest).collect();
    ctx.sample_with(|| format!("base {} + attachments {:?}", bm.show(), atts.iter().map(|a| (a.vendor, a.conforms)).collect::<Vec<_>>()));

    // the envelope is the base plus exactly these assertions
    let em = tryp!(ctx, bridge::read_out(&e), "readout", "C19/readout");
    let base_d: BTreeSet<D32> = bm.assertions().iter().map(|a| a.digest()).collect();
    let now_d: BTreeSet<D32> = em.assertions().iter().map(|a| a.digest()).collect();
    check!(ctx, now_d == base_d.union(&want_all).cloned().collect::<BTreeSet<D32>>() && em.subject().digest() == bm.subject().digest(), "add", "C19/add/content", "adding attachments changed something else in the envelope");

    // ---- retrieval
    let got = nopanic!(ctx, e.attachments(), "attachments", "C19/attachments");
    let got = tryp!(ctx, got.map_err(|x| format!("attachments() failed on well-formed attachments: {}", x)), "attachments", "C19/attachments/err");
    let got_d: BTreeSet<D32> = got.iter().map(|a| d32(&a.digest())).collect();
    check!(ctx, got_d == want_all && got.len() == want_all.len(), "attachments", "C19/attachments/set", "attachments() returned {} attachments, {} were added", got.len(), want_all.len());
    for a in &got {
        let d = d32(&a.digest());
        let model = atts.iter().find(|x| x.digest == d).unwrap();
        let p = nopanic!(ctx, a.attachment_payload(), "attachments", "C19/attachments/payload");
        let p = tryp!(ctx, p.map_err(|x| x.to_string()), "attachments", "C19/attachments/payload");
        check!(ctx, model.payload_bytes.contains(&p.to_cbor_data()) && p.is_equivalent_to(&model.payload), "attachments", "C19/attachments/payload", "attachment_payload is not the payload that was attached: got {} expected one of {:?}", hex::encode(p.to_cbor_data()), model.payload_bytes.iter().map(hex::encode).collect::<Vec<_>>());
        let v = nopanic!(ctx, a.attachment_vendor(), "attachments", "C19/attachments/vendor");
        check!(ctx, matches!(&v, Ok(x) if x == model.vendor), "attachments", "C19/attachments/vendor", "attachment_vendor = {:?}, added {:?}", v.as_ref().ok(), model.vendor);
        let c = nopanic!(ctx, a.attachment_conforms_to(), "attachments", "C19/attachments/conforms");
        check!(ctx, matches!(&c, Ok(x) if x.as_deref() == model.conforms), "attachments", "C19/attachments/conforms", "attachment_conforms_to = {:?}, added {:?}", c.as_ref().ok(), model.conforms);
        let ok = nopanic!(ctx, a.validate_attachment(), "attachments", "C19/attachments/validate");
        check!(ctx, ok.is_ok(), "attachments", "C19/attachments/validate", "validate_attachment rejects a well-formed attachment");
    }
    // ---- filters
    let mut interesting = false;
    let mut vendor_probes: Vec<Option<&str>> = vec![None];
    vendor_probes.extend(VENDORS.iter().map(|v| Some(*v)));
    vendor_probes.push(Some("absent.vendor"));
    let mut conf_probes: Vec<Option<&str>> = vec![None, Some("https://example.com/v1"), Some("v2"), Some(""), Some("absent-conf")];
    conf_probes.dedup();
    for v in &vendor_probes {
        for c in &conf_probes {
            if src.chance(120) {
                continue; // a sample of the 30 combinations per case
            }
            let want: BTreeSet<D32> = atts.iter().filter(|a| v.map(|x| x == a.vendor).unwrap_or(true) && c.map(|x| a.conforms == Some(x)).unwrap_or(true)).map(|a| a.digest).collect();
            let r = nopanic!(ctx, e.attachments_with_vendor_and_conforms_to(*v, *c), "filter", "C19/filter");
            let r = tryp!(ctx, r.map_err(|x| x.to_string()), "filter", "C19/filter/err");
            let gd: BTreeSet<D32> = r.iter().map(|a| d32(&a.digest())).collect();
            check!(ctx, gd == want && r.len() == want.len(), "filter", "C19/filter/set", "filter (vendor {:?}, conformsTo {:?}) returned {} attachments, the model says {}", v, c, r.len(), want.len());
            let one = nopanic!(ctx, e.attachment_with_vendor_and_conforms_to(*v, *c), "filter", "C19/filter/single");
            match want.len() {
                1 => check!(ctx, matches!(&one, Ok(x) if want.contains(&d32(&x.digest()))), "filter", "C19/filter/single", "single-result form did not return the one matching attachment"),
                _ => check!(ctx, one.is_err(), "filter", "C19/filter/single", "single-result form succeeded although {} attachments match", want.len()),
            }
            if atts.len() >= 2 && want.len() != 1 {
                interesting = true;
            }
            ctx.class(&format!("filter-matches:{}", want.len().min(3)));
        }
    }
    // ---- near-miss filters: a vendor / conformsTo that differs from an added one only in letter case, by
    // a trailing character or by a missing one matches nothing (filters compare strings exactly)
    for v in [None, Some("COM.EXAMPLE"), Some("Com.Example"), Some("com.example "), Some("org.verif."), Some("com.exampl"), Some("ORG.VERIF")] {
        for c in [None, Some("HTTPS://EXAMPLE.COM/V1"), Some("V2"), Some("v2 "), Some("https://example.com/v")] {
            if v.is_none() && c.is_none() {
                continue;
            }
            let want: BTreeSet<D32> = atts.iter().filter(|a| v.map(|x| x == a.vendor).unwrap_or(true) && c.map(|x| a.conforms == Some(x)).unwrap_or(true)).map(|a| a.digest).collect();
            let r = nopanic!(ctx, e.attachments_with_vendor_and_conforms_to(v, c), "filter", "C19/filter/near-miss");
            let r = tryp!(ctx, r.map_err(|x| x.to_string()), "filter", "C19/filter/near-miss");
            let gd: BTreeSet<D32> = r.iter().map(|a| d32(&a.digest())).collect();
            check!(ctx, gd == want && r.len() == want.len(), "filter", "C19/filter/near-miss", "filter (vendor {:?}, conformsTo {:?}) returned {} attachments, exact string comparison gives {}", v, c, r.len(), want.len());
        }
    }
    // ---- container round trip
    let cont = nopanic!(ctx, Attachments::try_from_envelope(&e), "container", "C19/container");
    let cont = tryp!(ctx, cont.map_err(|x| x.to_string()), "container", "C19/container");
    for a in &atts {
        check!(ctx, cont.get(&bridge::dig(&a.digest)).is_some(), "container", "C19/container", "Attachments::try_from_envelope lost an attachment");
    }
    check!(ctx, cont.is_empty() == atts.is_empty(), "container", "C19/container", "Attachments::is_empty wrong");
    let rebuilt = nopanic!(ctx, cont.add_to_envelope(base.clone()), "container", "C19/container");
    check!(ctx, rebuilt.to_cbor_data() == e.to_cbor_data(), "container", "C19/container", "Attachments round trip does not rebuild the envelope");
    // writing the container onto an envelope that already holds (some of) its attachments adds nothing twice
    let onto_holder = nopanic!(ctx, cont.add_to_envelope(e.clone()), "container", "C19/container/onto-holder");
    check!(ctx, onto_holder.to_cbor_data() == e.to_cbor_data(), "container", "C19/container/onto-holder", "Attachments::add_to_envelope onto an envelope that already holds these attachments changed it ({} attachments afterwards)", onto_holder.attachments().map(|x| x.len()).unwrap_or(9999));
    let twice = nopanic!(ctx, cont.add_to_envelope(rebuilt.clone()), "container", "C19/container/onto-holder");
    check!(ctx, twice.to_cbor_data() == e.to_cbor_data(), "container", "C19/container/onto-holder", "Attachments::add_to_envelope applied twice differs from once");
    {
        // a container with one more attachment, written onto the holder of the others
        let mut more = nopanic!(ctx, Attachments::try_from_envelope(&e).map_err(|x| x.to_string()), "container", "C19/container/onto-holder").unwrap_or_else(|_| Attachments::new());
        more.add("one more payload", "org.verif.more", Some("urn:more"));
        let grown = nopanic!(ctx, more.add_to_envelope(e.clone()), "container", "C19/container/onto-holder");
        let direct = e.add_attachment("one more payload", "org.verif.more", Some("urn:more"));
        check!(ctx, grown.to_cbor_data() == direct.to_cbor_data(), "container", "C19/container/onto-holder", "a container holding the envelope's attachments plus one, written onto that envelope, differs from add_attachment of the one");
        let n = nopanic!(ctx, grown.attachments().map(|x| x.len()).map_err(|x| x.to_string()), "container", "C19/container/onto-holder");
        check!(ctx, n == Ok(want_all.len() + 1), "container", "C19/container/onto-holder", "attachments() after writing the grown container: {:?}, expected {}", n, want_all.len() + 1);
    }

    // ---- malformed
    if src.chance(110) {
        let a0 = &atts[0];
        let good = Envelope::new_attachment(a0.payload.clone(), a0.vendor, a0.conforms);
        let obj = good.as_object().unwrap();
        let kind = src.below(9);
        let names = ["vendor-removed", "two-vendors", "extra-assertion", "payload-not-wrapped", "non-string-vendor", "non-string-conformsTo", "two-conformsTo", "salted-attachment", "object-is-leaf"];
        let bad_obj: Envelope = match kind {
            0 => obj.remove_assertion(obj.assertion_with_predicate(known_values::VENDOR).unwrap()),
            1 => obj.add_assertion(known_values::VENDOR, "second.vendor"),
            2 => obj.add_assertion("extra", "assertion"),
            3 => a0.payload.clone().add_assertion(known_values::VENDOR, a0.vendor),
            4 => obj.remove_assertion(obj.assertion_with_predicate(known_values::VENDOR).unwrap()).add_assertion(known_values::VENDOR, 42),
            5 => obj.remove_assertion(obj.assertion_with_predicate(known_values::CONFORMS_TO).unwrap_or(Envelope::new_assertion("n", "n"))).add_assertion(known_values::CONFORMS_TO, 42),
            6 => obj.add_assertion(known_values::CONFORMS_TO, "one more").add_assertion(known_values::CONFORMS_TO, "and another"),
            7 => obj.clone(),
            _ => Envelope::new("just a leaf"),
        };
        let mut bad = Envelope::new_assertion(known_values::ATTACHMENT, bad_obj);
        if kind == 7 {
            bad = bad.add_salt();
        }
        // a payload that is itself a wrapped envelope makes "payload-not-wrapped" well-formed by accident
        let accidental = kind == 3 && a0.payload.subject().is_wrapped();
        if !accidental {
            ctx.class(&format!("malformed:{}", names[kind]));
            let key = format!("C19/malformed/{}", names[kind]);
            let with_bad = tryp!(ctx, e.add_assertion_envelope(bad.clone()).map_err(|x| x.to_string()), "malformed", &key);
            let r = nopanic!(ctx, with_bad.attachments(), "malformed", &key);
            check!(ctx, r.is_err(), "malformed", &key, "attachments() succeeded although a malformed attachment assertion ({}) is present", names[kind]);
            let r2 = nopanic!(ctx, with_bad.attachments_with_vendor_and_conforms_to(Some(a0.vendor), None), "malformed", &key);
            check!(ctx, r2.is_err(), "malformed", &key, "filtered attachments succeeded although a malformed attachment assertion ({}) is present", names[kind]);
            // "Returns an error if any of the envelope's attachments are invalid": whatever the filter is,
            // also one that the malformed attachment's readable vendor / conformsTo does not match
            for v in [None, Some(VENDORS[0]), Some(VENDORS[1]), Some(VENDORS[2]), Some(VENDORS[3]), Some("vendor.absent")] {
                for c in [None, CONFORMS[1], CONFORMS[2], CONFORMS[3], Some("conf.absent")] {
                    let r = nopanic!(ctx, with_bad.attachments_with_vendor_and_conforms_to(v, c), "malformed", &key);
                    check!(ctx, r.is_err(), "malformed", &format!("{}/filtered", key), "attachments_with_vendor_and_conforms_to({:?}, {:?}) succeeded although a malformed attachment assertion ({}) is present", v, c, names[kind]);
                    let r = nopanic!(ctx, with_bad.attachment_with_vendor_and_conforms_to(v, c), "malformed", &key);
                    check!(ctx, r.is_err(), "malformed", &format!("{}/filtered", key), "attachment_with_vendor_and_conforms_to({:?}, {:?}) succeeded although a malformed attachment assertion ({}) is present", v, c, names[kind]);
                }
            }
            let r3 = nopanic!(ctx, bad.validate_attachment(), "malformed", &key);
            check!(ctx, r3.is_err(), "malformed", &key, "validate_attachment accepted a malformed attachment ({})", names[kind]);
            let r4 = nopanic!(ctx, Attachments::try_from_envelope(&with_bad), "malformed", &key);
            check!(ctx, r4.is_err(), "malformed", &key, "Attachments::try_from_envelope accepted a malformed attachment ({})", names[kind]);
            ctx.nontrivial = true;
        }
    }

    // ---- a well-formed attachment OBJECT under another predicate is not an attachment
    {
        let a0 = &atts[0];
        let obj = Envelope::new_attachment(a0.payload.clone(), a0.vendor, a0.conforms).as_object().unwrap();
        let others: Vec<(&str, Envelope)> = vec![
            ("text 'attachment'", Envelope::new_assertion("attachment", obj.clone())),
            ("'note'", Envelope::new_assertion(known_values::NOTE, obj.clone())),
            ("'vendor'", Envelope::new_assertion(known_values::VENDOR, obj.clone())),
            ("the integer 50", Envelope::new_assertion(50u64, obj.clone())),
            ("known value 51", Envelope::new_assertion(KnownValue::new(51), obj.clone())),
        ];
        for (name, bad) in others {
            let r = nopanic!(ctx, bad.validate_attachment(), "malformed", "C19/malformed/wrong-predicate");
            check!(ctx, r.is_err(), "malformed", "C19/malformed/wrong-predicate", "validate_attachment accepted an assertion whose predicate is {} (with a well-formed attachment object)", name);
            let with = tryp!(ctx, e.add_assertion_envelope(bad).map_err(|x| x.to_string()), "malformed", "C19/malformed/wrong-predicate");
            let n = nopanic!(ctx, with.attachments().map(|v| v.len()).map_err(|x| x.to_string()), "malformed", "C19/malformed/wrong-predicate");
            check!(ctx, n == Ok(want_all.len()), "malformed", "C19/malformed/wrong-predicate", "an assertion with predicate {} changed what attachments() reports: {:?}", name, n);
        }
    }

    // ---- types
    let n_types = src.weighted(&[20, 35, 25, 12, 8]);
    let mut t = base.clone();
    let mut added_known: Vec<u64> = Vec::new();
    let mut added_text: Vec<String> = Vec::new();
    let mut type_digests: BTreeSet<D32> = BTreeSet::new();
    for _ in 0..n_types {
        if src.bool() {
            let v = *src.pick(&[200u64, 201, 202, 203, 7, 1, 65536]);
            t = nopanic!(ctx, t.add_type(KnownValue::new(v)), "types", "C19/types");
            added_known.push(v);
            type_digests.insert(M::Known(v).digest());
        } else {
            let s = format!("Type{}", src.below(4));
            t = nopanic!(ctx, t.add_type(s.as_str()), "types", "C19/types");
            type_digests.insert(M::text(&s).digest());
            added_text.push(s);
        }
    }
    // (as for attachments: an 'isA' assertion the base already holds in obscured form is not added again and
    // cannot be read)
    {
        let held: BTreeSet<D32> = bm.assertions().iter().map(|a| a.digest()).collect();
        let collides = added_known.iter().any(|v| held.contains(&M::assertion(M::Known(1), M::Known(*v)).digest())) || added_text.iter().any(|t| held.contains(&M::assertion(M::Known(1), M::text(t)).digest()));
        if collides {
            ctx.class("assertion-already-present-obscured");
            return Outcome::Pass;
        }
    }
    // a type that is an envelope with assertions of its own: only the whole envelope is "the type"
    let annotated = src.chance(100);
    let ann_name = format!("Type{}", src.below(4));
    let ann_version = src.below(3) as u64;
    if annotated {
        let ty = Envelope::new(ann_name.as_str()).add_assertion("version", ann_version);
        t = nopanic!(ctx, t.add_type(ty), "types", "C19/types");
        type_digests.insert(M::text(&ann_name).add(M::assertion(M::text("version"), M::leaf_item(&crate::cbor::Item::U(ann_version)))).digest());
        ctx.class("type-with-assertions");
    }
    ctx.class(&format!("types={}", type_digests.len().min(4)));
    let types = nopanic!(ctx, t.types(), "types", "C19/types");
    let td: BTreeSet<D32> = types.iter().map(|x| d32(&x.digest())).collect();
    check!(ctx, td == type_digests && types.len() == type_digests.len(), "types", "C19/types/set", "types() returned {} types, {} distinct were added", types.len(), type_digests.len());
    for v in [200u64, 201, 202, 203, 7, 1, 65536, 9] {
        let want = added_known.contains(&v);
        let kv = KnownValue::new(v);
        let got = nopanic!(ctx, t.has_type(&kv), "types", "C19/types");
        check!(ctx, got == want, "types", if got { "C19/types/false-positive" } else { "C19/types/false-negative" }, "has_type('{}') = {} but the type was {}added", v, got, if want { "" } else { "not " });
        check!(ctx, t.check_type(&kv).is_ok() == want && t.has_type_envelope(kv.clone()) == want && t.check_type_envelope(kv).is_ok() == want, "types", "C19/types/check", "check_type / has_type_envelope disagree with has_type for '{}'", v);
    }
    for s in ["Type0", "Type1", "Type2", "Type3", "TypeAbsent"] {
        let want = added_text.iter().any(|x| x == s);
        let got = nopanic!(ctx, t.has_type_envelope(s), "types", "C19/types");
        check!(ctx, got == want && t.check_type_envelope(s).is_ok() == want, "types", if got { "C19/types/false-positive" } else { "C19/types/false-negative" }, "has_type_envelope({:?}) = {} but the type was {}added", s, got, if want { "" } else { "not " });
    }
    if annotated {
        let same = Envelope::new(ann_name.as_str()).add_assertion("version", ann_version);
        let other_version = Envelope::new(ann_name.as_str()).add_assertion("version", ann_version + 1);
        let other_subject = Envelope::new("OtherType").add_assertion("version", ann_version);
        check!(ctx, t.has_type_envelope(same.clone()) && t.check_type_envelope(same).is_ok(), "types", "C19/types/false-negative", "has_type_envelope is false for the annotated type that was added");
        check!(ctx, !t.has_type_envelope(other_version.clone()) && t.check_type_envelope(other_version).is_err(), "types", "C19/types/false-positive", "has_type_envelope is true for a type with the same subject but another annotation");
        check!(ctx, !t.has_type_envelope(other_subject), "types", "C19/types/false-positive", "has_type_envelope is true for a type with another subject");
        // the bare subject is a different type unless it was added separately
        let bare_added = added_text.iter().any(|x| *x == ann_name);
        check!(ctx, t.has_type_envelope(ann_name.as_str()) == bare_added, "types", if bare_added { "C19/types/false-negative" } else { "C19/types/false-positive" }, "has_type_envelope({:?}) = {} although only the annotated type {:?} [version: {}] was added (bare added: {})", ann_name, !bare_added, ann_name, ann_version, bare_added);
    }
    let gt = nopanic!(ctx, t.get_type(), "types", "C19/types");
    check!(ctx, gt.is_ok() == (type_digests.len() == 1), "types", "C19/types/get_type", "get_type() is {} with {} types", if gt.is_ok() { "Ok" } else { "Err" }, type_digests.len());
    if let Ok(g) = gt {
        check!(ctx, type_digests.contains(&d32(&g.digest())), "types", "C19/types/get_type", "get_type() returned something that is not the type");
    }
    // adding types must not disturb attachments and vice versa
    let both = nopanic!(ctx, e.add_type(KnownValue::new(200)), "types", "C19/types");
    let r = nopanic!(ctx, both.attachments(), "types", "C19/types");
    check!(ctx, matches!(&r, Ok(x) if x.len() == want_all.len()) && both.has_type(&KnownValue::new(200)), "types", "C19/types/independent", "types and attachments interfere");
    // --- a type whose 'isA' assertion carries assertions of its own (salted add, or a note on the
    // assertion): it is a type of the envelope like any other (drawn last)
    if src.chance(60) {
        let name = format!("DecoratedType{}", src.below(3));
        let route = src.below(2);
        let t2 = if route == 0 {
            nopanic!(ctx, t.add_assertion_salted(known_values::IS_A, name.as_str(), true), "types", "C19/types/decorated")
        } else {
            let a = Envelope::new_assertion(known_values::IS_A, name.as_str()).add_assertion(known_values::NOTE, "why this type");
            tryp!(ctx, nopanic!(ctx, t.add_assertion_envelope(a), "types", "C19/types/decorated").map_err(|x| x.to_string()), "types", "C19/types/decorated")
        };
        ctx.class(["type-added-salted", "type-added-with-note"][route]);
        let mut want = type_digests.clone();
        want.insert(M::text(&name).digest());
        let types = nopanic!(ctx, t2.types(), "types", "C19/types/decorated");
        let td: BTreeSet<D32> = types.iter().map(|x| d32(&x.digest())).collect();
        check!(ctx, td == want && types.len() == want.len(), "types", "C19/types/decorated", "types() returned {} types, {} distinct were added (one of them through an 'isA' assertion that carries its own assertions)", types.len(), want.len());
        check!(ctx, t2.has_type_envelope(name.as_str()) && t2.check_type_envelope(name.as_str()).is_ok(), "types", "C19/types/decorated", "has_type_envelope is false for a type whose 'isA' assertion carries assertions");
        let gt = nopanic!(ctx, t2.get_type(), "types", "C19/types/decorated");
        check!(ctx, gt.is_ok() == (want.len() == 1), "types", "C19/types/decorated", "get_type() is {} with {} types", if gt.is_ok() { "Ok" } else { "Err" }, want.len());
        for v in [200u64, 9] {
            let kv = KnownValue::new(v);
            check!(ctx, t2.has_type(&kv) == added_known.contains(&v), "types", "C19/types/decorated", "has_type('{}') changed by a decorated type assertion", v);
        }
        ctx.nontrivial = true;
    }
    // --- drawn last: the predicates 'attachment' / 'isA' (or 'vendor' / 'conformsTo' inside the attachment
    // objects) obscured after the fact. Lookups go by digest, no digest changes: the same attachments and
    // the same types are reported.
    if src.chance(60) {
        let which = src.below(4);
        let pred = [known_values::ATTACHMENT, known_values::IS_A, known_values::VENDOR, known_values::CONFORMS_TO][which].clone();
        let action = match src.below(3) {
            0 => ObscureAction::Elide,
            1 => ObscureAction::Encrypt(bridge::case_key()),
            _ => ObscureAction::Compress,
        };
        let both_before = nopanic!(ctx, t.add_assertions(&e.assertions_with_predicate(known_values::ATTACHMENT)), "predicate-obscured", "C19/predicate-obscured");
        let hidden = nopanic!(ctx, both_before.elide_removing_target_with_action(&Envelope::new(pred.clone()), &action), "predicate-obscured", "C19/predicate-obscured");
        check!(ctx, hidden.digest() == both_before.digest(), "predicate-obscured", "C19/predicate-obscured", "obscuring a predicate changed the digest");
        ctx.class(&format!("predicate-obscured:{}", ["attachment", "isA", "vendor", "conformsTo"][which]));
        let key = format!("C19/predicate-obscured/{}", ["attachment", "isA", "vendor", "conformsTo"][which]);
        let before_a: Result<BTreeSet<D32>, String> = both_before.attachments().map(|v| v.iter().map(|x| d32(&x.digest())).collect()).map_err(|x| x.to_string());
        let after_a: Result<BTreeSet<D32>, String> = nopanic!(ctx, hidden.attachments().map(|v| v.iter().map(|x| d32(&x.digest())).collect()).map_err(|x| x.to_string()), "predicate-obscured", &key);
        check!(ctx, before_a.is_ok() && after_a == before_a, "predicate-obscured", &key, "attachments() before obscuring the predicate: {:?}; after: {:?}", before_a.as_ref().map(|x| x.len()), after_a.as_ref().map(|x| x.len()));
        let after_t: BTreeSet<D32> = nopanic!(ctx, hidden.types(), "predicate-obscured", &key).iter().map(|x| d32(&x.digest())).collect();
        check!(ctx, after_t == type_digests, "predicate-obscured", &key, "types() reports {} types after the predicate was obscured, {} were added", after_t.len(), type_digests.len());
        // the type OBJECT obscured (not the predicate): the envelope still has that type
        if let Some(v) = added_known.first() {
            let kv = KnownValue::new(*v);
            let td = M::Known(*v).digest();
            // (not when that digest also belongs to an element of the base envelope or of a payload)
            if !bm.elements().iter().any(|x| x.digest() == td) && !atts.iter().any(|a| bridge::read_out(&a.payload).map(|pm| pm.elements().iter().any(|x| x.digest() == td)).unwrap_or(true)) {
                let h2 = nopanic!(ctx, both_before.elide_removing_target_with_action(&Envelope::new(kv.clone()), &action), "predicate-obscured", "C19/type-object-obscured");
                check!(ctx, h2.digest() == both_before.digest(), "predicate-obscured", "C19/type-object-obscured", "obscuring a type object changed the digest");
                check!(ctx, h2.has_type(&kv) && h2.check_type(&kv).is_ok() && h2.has_type_envelope(kv.clone()), "predicate-obscured", "C19/type-object-obscured", "after the object of the 'isA' assertion for type '{}' was obscured (no digest changed) the envelope no longer has that type", v);
                let tset: BTreeSet<D32> = h2.types().iter().map(|x| d32(&x.digest())).collect();
                check!(ctx, tset == type_digests, "predicate-obscured", "C19/type-object-obscured", "types() changed after a type object was obscured");
                ctx.class("type-object-obscured");
            }
        }
        for a in &atts {
            let r = nopanic!(ctx, hidden.attachments_with_vendor_and_conforms_to(Some(a.vendor), a.conforms).map(|v| v.iter().map(|x| d32(&x.digest())).collect::<BTreeSet<D32>>()).map_err(|x| x.to_string()), "predicate-obscured", &key);
            check!(ctx, matches!(&r, Ok(set) if set.contains(&a.digest)), "predicate-obscured", &key, "the attachment (vendor {:?}, conformsTo {:?}) is no longer found by its own vendor and conformsTo: {:?}", a.vendor, a.conforms, r.as_ref().map(|x| x.len()));
        }
        ctx.nontrivial = true;
    }
    if interesting || type_digests.len() >= 2 {
        ctx.nontrivial = true;
    }
    Outcome::Pass
}
