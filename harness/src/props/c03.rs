//! C03 — elision hides exactly the targeted elements and leaves no trace of them.

use crate::bridge::{self, agree, build_a, build_b, case_key, check_bytes, check_digests, spec_model};
use crate::cbor;
use crate::engine::{Ctx, Outcome, Prop};
use crate::gen::{self, GenCfg, Obs};
use crate::model::M;
use crate::ops::{model_compressed, model_encrypted};
use crate::props::c02::{apply_elide, gen_obs};
use crate::src::Src;
use crate::{check, nopanic, tryp};
use bc_envelope::prelude::*;
use std::collections::BTreeSet;

pub fn prop() -> Prop {
    Prop {
        id: "C03",
        run,
        max_len: 600,
        quick: 300_000,
        thorough: 3_000_000,
        rule: "choice sequence -> envelope whose every leaf is a unique marker string (>= 11 bytes) placed at subject / predicate / object / wrapped-interior / assertion-on-assertion positions, possibly already partly obscured, x target set x {removing, revealing} x {Elide, Encrypt, Compress}; oracle: the model computes the expected result from the visibility rule and the result must agree position-wise (case, digest, content); the serialised result is parsed by the harness parser and must not contain the marker bytes of any hidden leaf (Elide, Encrypt); unelide(x) is Ok iff digest(x)=digest(placeholder) for x in {original, obscured variants, near miss, unrelated}. non-trivial: >=1 hidden and >=1 visible element; distinct by FNV-64 of (encoding, targets, mode, action)",
        assumptions: &["marker strings are 11+ random-looking bytes: a chance occurrence inside ciphertext is negligible (< 2^-60 per case)", "no residue claim for the Compress action (compressed data may contain the content verbatim)"],
        extra: None,
    }
}

fn marker_leaves(m: &M, out: &mut Vec<Vec<u8>>) {
    for e in m.elements() {
        if let M::Leaf(b) = e {
            if let Ok(p) = cbor::parse(b) {
                if let cbor::Kind::T(s, e2) = p.root.kind {
                    let t = &b[s..e2];
                    if t.starts_with(b"MK") {
                        out.push(t.to_vec());
                    }
                }
            }
        }
    }
}

fn contains(hay: &[u8], needle: &[u8]) -> bool {
    hay.windows(needle.len()).any(|w| w == needle)
}

pub fn run(data: &[u8], ctx: &mut Ctx) -> Outcome {
    let mut src = Src::new(data);
    let mut cfg = GenCfg::new(5, 40);
    cfg.markers = true;
    cfg.obscured = src.chance(64);
    let spec = gen::gen_spec(&mut src, &mut cfg);
    let model = spec_model(&spec);
    ctx.fingerprint(&model.tagged());
    ctx.sample_with(|| model.show());
    let e = if src.chance(64) {
        let b = nopanic!(ctx, build_b(&model), "build", "C03/build");
        tryp!(ctx, b, "build", "C03/build")
    } else {
        nopanic!(ctx, build_a(&spec, &mut src), "build", "C03/build")
    };
    let m = tryp!(ctx, bridge::read_out(&e), "readout", "C03/readout");
    let reveal = src.chance(110);
    let t = if reveal && src.chance(200) { gen::gen_reveal_targets(&mut src, &m) } else { gen::gen_targets(&mut src, &m, true) };
    let action = gen_obs(&mut src);
    let api = src.below(7);
    for d in &t {
        ctx.fingerprint(d);
    }
    ctx.fingerprint(&[reveal as u8, action as u8]);
    let mode = if reveal { "revealing" } else { "removing" };
    ctx.class(&format!("{}:{:?}", mode, action));
    let key = format!("C03/{}/{:?}", mode, action);
    let sub = format!("{}-{:?}", mode, action);

    let r = nopanic!(ctx, apply_elide(&e, &t, reveal, action, api), &sub, &key);

    // expected result from the visibility rule
    let k = case_key();
    let hide = |x: &M| -> M {
        match action {
            Obs::Elide => x.elided(),
            Obs::Encrypt => model_encrypted(x, &k, &[0u8; 12]),
            Obs::Compress => match x {
                M::Elided(_) | M::Encrypted(..) | M::Compressed(..) => x.clone(),
                _ => model_compressed(x),
            },
        }
    };
    let expected = m.elide_set(&t, reveal, &hide);
    let lm = nopanic!(ctx, check_digests(&r), &sub, &key);
    let lm = tryp!(ctx, lm, &sub, &key);
    tryp!(
        ctx,
        agree(&lm, &expected).map_err(|s| format!("{} of {:?} on {}: {} — expected {} got {}", mode, t.iter().map(crate::model::hex32).collect::<Vec<_>>(), m.show(), s, expected.show(), lm.show())),
        &sub,
        &key
    );
    let bytes = nopanic!(ctx, check_bytes(&r, &lm), &sub, &key);
    let bytes = tryp!(ctx, bytes, &sub, &key);

    // residue: markers visible before, hidden now
    let mut before = Vec::new();
    marker_leaves(&m, &mut before);
    let mut after = Vec::new();
    marker_leaves(&expected, &mut after);
    let after_set: BTreeSet<&Vec<u8>> = after.iter().collect();
    let hidden: Vec<&Vec<u8>> = before.iter().filter(|x| !after_set.contains(x)).collect();
    if action != Obs::Compress {
        for mk in &hidden {
            check!(ctx, !contains(&bytes, mk), "residue", &format!("C03/residue/{:?}", action), "hidden leaf {:?} still occurs in the serialised result of {} {:?} on {}", String::from_utf8_lossy(mk), mode, action, m.show());
        }
        // also through the tagged-CBOR and UR routes (same bytes by contract; guards against a second serialiser)
        let tb = nopanic!(ctx, r.tagged_cbor().to_cbor_data(), "residue", "C03/residue");
        check!(ctx, tb == bytes, "residue", "C03/residue/tagged", "tagged_cbor() bytes differ from to_cbor_data()");
    }
    ctx.count("hidden-markers", hidden.len() as u64);
    if !hidden.is_empty() && !after.is_empty() {
        ctx.nontrivial = true;
    }
    if m.count_obscured() > 0 {
        ctx.class("pre-obscured-input");
    }
    if action == Obs::Elide {
        // each newly hidden position is exactly the 34-byte digest placeholder — implied by agree + check_bytes;
        // make the count explicit for the evidence
        ctx.count("elided-positions", expected.elements().iter().filter(|x| matches!(x, M::Elided(_))).count() as u64);
    }

    // unelide
    let placeholder = nopanic!(ctx, e.elide(), "unelide", "C03/unelide");
    let mut candidates: Vec<(&str, Envelope, bool)> = vec![("original", e.clone(), true), ("obscured-variant", r.clone(), true)];
    let near = {
        // one leaf changed: add an assertion (different digest)
        e.add_assertion("MK-near-miss", "x")
    };
    candidates.push(("near-miss", near, false));
    candidates.push(("unrelated", Envelope::new("MK-unrelated"), false));
    // un-eliding accepts only an envelope whose digest equals the receiver's — whatever form the receiver
    // is in (the plain placeholder, the partially obscured result, or the original itself)
    for (rname, receiver) in [("obscured-result", &r), ("original", &e)] {
        for (name, c, want) in &candidates {
            let got = nopanic!(ctx, receiver.unelide(c.clone()), "unelide", "C03/unelide");
            match got {
                Ok(x) => {
                    check!(ctx, *want, "unelide", "C03/unelide/accepts", "unelide on the {} accepted a {} envelope with a different digest", rname, name);
                    check!(ctx, x.digest() == e.digest(), "unelide", "C03/unelide/result", "unelide returned an envelope with another digest");
                }
                Err(_) => {
                    check!(ctx, !*want, "unelide", "C03/unelide/rejects", "unelide on the {} rejected the {} envelope although the digests are equal", rname, name);
                }
            }
        }
    }
    for (name, c, want) in candidates {
        let got = nopanic!(ctx, placeholder.unelide(c.clone()), "unelide", "C03/unelide");
        match got {
            Ok(x) => {
                check!(ctx, want, "unelide", "C03/unelide/accepts", "unelide accepted a {} envelope with a different digest", name);
                check!(ctx, x.digest() == e.digest(), "unelide", "C03/unelide/result", "unelide returned an envelope with another digest");
            }
            Err(_) => {
                check!(ctx, !want, "unelide", "C03/unelide/rejects", "unelide rejected the {} envelope although the digests are equal", name);
            }
        }
    }
    Outcome::Pass
}
