//! C09 — signatures bind to the subject digest and verification is exact.

use crate::bridge::{self, build_a, spec_model, to_hashset};
use crate::engine::{Ctx, Outcome, Prop};
use crate::gen::{self, GenCfg, Obs};
use crate::keys::{self, SigKey};
use crate::model::{D32, M};
use crate::props::c02::action_of;
use crate::src::Src;
use crate::{check, nopanic, tryp};
use bc_components::{DigestProvider, Signature, Signer, Verifier};
use bc_envelope::prelude::*;
use bc_envelope::{known_values, SignatureMetadata};
use std::collections::BTreeSet;

pub fn prop() -> Prop {
    Prop {
        id: "C09",
        run,
        max_len: 500,
        quick: 16_000,
        thorough: 400_000,
        rule: "choice sequence -> envelope x signer set S (1-4 keys from a pool of 19: Schnorr, ECDSA, Ed25519, ML-DSA-44/65/87, SSH-Ed25519, SSH-ECDSA-P256/P384, SSH-DSA; SSH keys with SigningOptions::Ssh) x with/without metadata x post-signing transformation {none, add assertions, elide/encrypt/compress a target set disjoint from the 'signed' assertions (both modes), obscure ANOTHER signer's signature assertion / its object / its predicate, encrypt or compress the subject, encode->decode} x key list L (1-5 distinct keys) x threshold in {None, 1..|L|+1}; adversarial 'signed' assertions: signature transplanted from another subject, copy of a valid signature wrapped with forged metadata and no outer signature, outer signature by a different key, non-signature inner object. oracle: for every checked pool key k, has_signature_from(k) is Ok(true) iff k in S (before and after the transformation), never Ok(true) for k not in S; verify_* agree; threshold result == (|L ∩ S| >= t); sign()/verify() round trip identical; metadata returned for k carries exactly the signed assertions and is covered by an outer signature of k over the wrapped metadata envelope (checked with bc-components' verify directly). non-trivial: |S|>=2, or a transformation that changed an element, or an adversarial case; distinct by FNV-64 of (encoding, signer indices, transformation); end stages: the envelope as the SUBJECT of an outer node signed by two keys (verify, metadata), one element strictly inside the second signer's assertion obscured (the first must still verify), and 'signed' assertions carrying a note / a salt / added salted; the predicate 'signed' obscured by each action (every signer still verifies); one key signing twice next to a non-signer (thresholds None, 1, 2); adversarial: assertions put directly on a valid plain signature are never returned as metadata; signing through add_signatures_opt when the signer indices sum to a multiple of 3; an empty key list meets no threshold >= 1",
        assumptions: &["signature schemes are unforgeable; keys come from a fixed per-thread pool (ML-DSA keys are not seedable and differ per run)", "with a non-signature object under 'signed' present, Ok(true) and Err are both tolerated for a key that did sign (the library documents an error for unexpected object types); Ok(false) is not"],
        extra: None,
    }
}

fn sign_digest(k: &SigKey, d: &[u8; 32]) -> Signature {
    k.private.sign_with_options(&d.as_slice(), k.options()).expect("signing")
}

fn metadata_for(i: usize, src: &mut Src) -> (SignatureMetadata, Vec<M>) {
    let mut md = SignatureMetadata::new();
    let mut ms = Vec::new();
    let n = 1 + src.below(2);
    for j in 0..n {
        let p = known_values::NOTE;
        let text = format!("signer {} note {}", i, j);
        if j == 0 {
            md = md.with_assertion(p, text.clone());
            ms.push(M::assertion(M::Known(4), M::text(&text)));
        } else {
            md = md.with_assertion("role", text.clone());
            ms.push(M::assertion(M::text("role"), M::text(&text)));
        }
    }
    (md, ms)
}

/// Dependency defect (ssh-key 0.6.6 / bc-components 0.19.0): about 1 % of freshly made SSH-ECDSA
/// signatures do not survive their own CBOR round trip ("length invalid"), so the 'signed' assertion
/// the library just added cannot be read back by anyone. Detected here with bc-components alone.
fn unreadable_fresh_signature(env: &Envelope) -> bool {
    for a in env.assertions_with_predicate(known_values::SIGNED) {
        let Some(obj) = a.subject().as_object() else { continue };
        let mut leaves = vec![obj.subject()];
        if obj.subject().is_wrapped() {
            if let Ok(inner) = obj.subject().unwrap_envelope() {
                leaves.push(inner.subject());
            }
            for outer in obj.assertions_with_predicate(known_values::SIGNED) {
                if let Some(o) = outer.subject().as_object() {
                    leaves.push(o.subject());
                }
            }
        }
        for l in leaves {
            if let Some(c) = l.as_leaf() {
                if let dcbor::CBORCase::Tagged(t, _) = c.as_case() {
                    if t.value() == 40020 && Signature::try_from(c.clone()).is_err() {
                        return true;
                    }
                }
            }
        }
    }
    false
}

const SSH_ECDSA_KEY: &str = "C09/dependency/ssh-ecdsa-signature-unreadable";

/// digests that occur anywhere inside 'signed' assertion elements of `m`
fn signed_digests(m: &M) -> BTreeSet<D32> {
    let mut out = BTreeSet::new();
    for a in m.assertions() {
        let is_signed = match a.subject() {
            M::Assertion(p, _) => p.digest() == M::Known(3).digest(),
            _ => false,
        };
        if is_signed {
            for e in a.elements() {
                out.insert(e.digest());
            }
        }
    }
    out
}

pub fn run(data: &[u8], ctx: &mut Ctx) -> Outcome {
    let mut src = Src::new(data);
    let pool = keys::full_pool();
    let mut cfg = GenCfg::new(3, 14);
    cfg.node_subject = false;
    let spec = gen::gen_spec(&mut src, &mut cfg);
    let model = spec_model(&spec);
    ctx.fingerprint(&model.tagged());
    let e = nopanic!(ctx, build_a(&spec, &mut src), "build", "C09/build");
    let subject_digest = model.subject().digest();
    // a generated envelope may itself carry a 'signed' assertion with a non-signature object; the
    // library documents an error for that, so for such inputs a genuine signer may get Err (never Ok(false))
    let garbage_present = model.assertions().iter().any(|a| matches!(a.subject(), M::Assertion(p, _) if p.digest() == M::Known(3).digest()));
    if garbage_present {
        ctx.class("base-has-bogus-signed-assertion");
    }

    // --- signer set
    let n_signers = 1 + src.weighted(&[50, 30, 15, 5]);
    let mut signers: Vec<usize> = Vec::new();
    while signers.len() < n_signers {
        // linear probing from the drawn index: always terminates (n_signers <= pool size)
        let mut i = src.below(pool.sig.len());
        while signers.contains(&i) {
            i = (i + 1) % pool.sig.len();
        }
        signers.push(i);
    }
    let mut signed = e.clone();
    let mut with_md: Vec<Option<Vec<M>>> = Vec::new();
    // the array form add_signatures_opt is the same as signing one by one; it is used when the signer
    // indices sum to a multiple of 3 (no further choice is drawn)
    let bulk = signers.len() >= 2 && signers.iter().sum::<usize>() % 3 == 0;
    let mut bulk_args: Vec<(usize, Option<SignatureMetadata>)> = Vec::new();
    for &i in &signers {
        let k = &pool.sig[i];
        ctx.class(&format!("scheme:{}", k.scheme));
        ctx.fingerprint(&[i as u8]);
        let md = if src.chance(90) { Some(metadata_for(i, &mut src)) } else { None };
        let key = format!("C09/sign/{}", k.scheme);
        if bulk {
            bulk_args.push((i, md.as_ref().map(|x| x.0.clone())));
        } else {
            signed = nopanic!(ctx, signed.add_signature_opt(&k.private, k.options(), md.as_ref().map(|x| x.0.clone())), "sign", &key);
        }
        if md.is_some() {
            ctx.class("with-metadata");
        }
        with_md.push(md.map(|x| x.1));
    }
    if bulk {
        ctx.class("signed-through-add_signatures_opt");
        let args: Vec<(&dyn Signer, Option<bc_components::SigningOptions>, Option<SignatureMetadata>)> = bulk_args.iter().map(|(i, md)| (&pool.sig[*i].private as &dyn Signer, pool.sig[*i].options(), md.clone())).collect();
        signed = nopanic!(ctx, signed.add_signatures_opt(&args), "sign", "C09/sign/add_signatures_opt");
    }
    if nopanic!(ctx, unreadable_fresh_signature(&signed), "sign", "C09/sign") {
        ctx.excluded_known += 1;
        check!(ctx, false, "sign", SSH_ECDSA_KEY, "a signature the library just added cannot be decoded again (SSH-ECDSA signature encoding, dependency defect)");
    }
    ctx.sample_with(|| format!("{} signed by {:?}", model.show(), signers.iter().map(|i| format!("{}#{}", pool.sig[*i].scheme, i)).collect::<Vec<_>>()));
    let sm = tryp!(ctx, bridge::read_out(&signed), "readout", "C09/readout");
    check!(ctx, sm.subject().digest() == subject_digest, "sign", "C09/sign", "signing changed the subject digest");
    check!(ctx, sm.assertions().len() == model.assertions().len() + signers.len(), "sign", "C09/sign", "signing did not add exactly one assertion per signer");

    // --- transformation after signing
    let mut transformed = signed.clone();
    let tkind = src.weighted(&[15, 12, 25, 18, 10, 10, 10]);
    let tname = ["none", "add-assertions", "obscure-unrelated", "obscure-other-signer", "encrypt-subject", "compress-subject", "encode-decode"][tkind];
    ctx.class(&format!("transform:{}", tname));
    ctx.fingerprint(tname.as_bytes());
    let mut changed = false;
    // the signer whose verification must survive (others may get obscured)
    let focus = src.below(signers.len());
    match tkind {
        1 => {
            for j in 0..1 + src.below(3) {
                transformed = transformed.add_assertion(format!("later-{}", j), src.below(1000) as u64);
            }
            changed = true;
        }
        2 => {
            let protected = signed_digests(&sm);
            let mut t = gen::gen_targets(&mut src, &sm, true);
            t.retain(|d| !protected.contains(d) && *d != sm.digest());
            let action = match src.below(3) {
                0 => Obs::Elide,
                1 => Obs::Encrypt,
                _ => Obs::Compress,
            };
            if src.chance(60) {
                // revealing: root + everything under the signed assertions + the chosen ones with ancestors
                let mut reveal = gen::gen_reveal_targets(&mut src, &sm);
                reveal.insert(sm.digest());
                reveal.extend(protected.iter().cloned());
                transformed = nopanic!(ctx, transformed.elide_revealing_set_with_action(&to_hashset(&reveal), &action_of(action)), "transform", "C09/transform");
                ctx.class("transform:revealing");
            } else {
                transformed = nopanic!(ctx, transformed.elide_removing_set_with_action(&to_hashset(&t), &action_of(action)), "transform", "C09/transform");
            }
            changed = transformed.to_cbor_data() != signed.to_cbor_data();
        }
        3 => {
            if signers.len() >= 2 {
                // obscure another signer's 'signed' assertion, its object or its predicate... the predicate
                // (known value 'signed') is shared by all signature assertions, so only whole-assertion and
                // object are position-specific.
                let other = (focus + 1 + src.below(signers.len() - 1)) % signers.len();
                let other_key = &pool.sig[signers[other]];
                let assertions = signed.assertions_with_predicate(known_values::SIGNED);
                // find the assertion made by `other`
                let mut target: Option<Envelope> = None;
                for a in assertions {
                    let Some(obj) = a.subject().as_object() else { continue };
                    let sig_env = if obj.subject().is_wrapped() { obj.subject().unwrap_envelope().unwrap().subject() } else { obj.subject() };
                    if let Ok(sig) = sig_env.extract_subject::<Signature>() {
                        if other_key.public.verify(&sig, &subject_digest.as_slice()) {
                            target = Some(a);
                        }
                    }
                }
                if let Some(a) = target {
                    let obj = a.subject().as_object().unwrap();
                    let has_md = obj.subject().is_wrapped();
                    let what = if has_md { src.below(4) } else { src.below(2) };
                    let victim = match what {
                        0 => a.clone(),
                        1 => obj.clone(),
                        // a signature with metadata: only the wrapped metadata envelope (the object's subject) ...
                        2 => obj.subject(),
                        // ... or only the outer signature assertion inside the object
                        _ => obj.assertions_with_predicate(known_values::SIGNED).first().cloned().unwrap_or(obj.clone()),
                    };
                    ctx.class(["obscure-other:assertion", "obscure-other:object", "obscure-other:wrapped-metadata", "obscure-other:outer-signature"][what]);
                    let action = match src.below(3) {
                        0 => Obs::Elide,
                        1 => Obs::Encrypt,
                        _ => Obs::Compress,
                    };
                    transformed = nopanic!(ctx, transformed.elide_removing_target_with_action(&victim, &action_of(action)), "transform", "C09/transform");
                    changed = true;
                }
            }
        }
        4 => {
            if let Ok(x) = transformed.encrypt_subject(&bridge::case_key()) {
                transformed = x;
                changed = true;
            }
        }
        5 => {
            if let Ok(x) = transformed.compress_subject() {
                changed = x.to_cbor_data() != transformed.to_cbor_data();
                transformed = x;
            }
        }
        6 => {
            let d = nopanic!(ctx, Envelope::try_from_cbor_data(transformed.to_cbor_data()), "transform", "C09/transform");
            transformed = tryp!(ctx, d.map_err(|x| x.to_string()), "transform", "C09/transform");
        }
        _ => {}
    }
    check!(ctx, transformed.subject().digest() == signed.subject().digest(), "transform", "C09/transform", "transformation {} changed the subject digest", tname);

    // --- exact verification, before and after
    let mut checked: Vec<usize> = signers.clone();
    for _ in 0..3 {
        let i = src.below(pool.sig.len());
        if !checked.contains(&i) {
            checked.push(i);
        }
    }
    for (stage, env) in [("signed", &signed), ("transformed", &transformed)] {
        for &i in &checked {
            let k = &pool.sig[i];
            let is_signer = signers.contains(&i);
            // after "obscure-other-signer" only the focus signer (and unaffected ones) are guaranteed
            let affected = stage == "transformed" && tkind == 3 && is_signer && signers[focus] != i;
            if affected {
                continue;
            }
            let key = format!("C09/verify/{}", stage);
            let r = nopanic!(ctx, env.has_signature_from(&k.public), "verify", &key);
            if is_signer && garbage_present {
                check!(ctx, !matches!(r, Ok(false)), "verify", &format!("{}/signer-not-verified", key), "signature by {}#{} reports false", k.scheme, i);
            } else if is_signer {
                check!(ctx, matches!(r, Ok(true)), "verify", &format!("{}/signer-not-verified", key), "signature by {}#{} does not verify on the {} envelope (transformation {}): {:?}", k.scheme, i, stage, tname, r.as_ref().map_err(|x| x.to_string()));
                let v = nopanic!(ctx, env.verify_signature_from(&k.public), "verify", &key);
                check!(ctx, v.is_ok(), "verify", &format!("{}/signer-not-verified", key), "verify_signature_from fails for signer {}#{}", k.scheme, i);
            } else {
                check!(ctx, !matches!(r, Ok(true)), "verify", &format!("{}/non-signer-verified", key), "has_signature_from is true for {}#{} which did not sign", k.scheme, i);
                let v = nopanic!(ctx, env.verify_signature_from(&k.public), "verify", &key);
                check!(ctx, v.is_err(), "verify", &format!("{}/non-signer-verified", key), "verify_signature_from succeeds for non-signer {}#{}", k.scheme, i);
            }
        }
    }

    if garbage_present {
        return Outcome::Pass;
    }
    // --- metadata
    for (n, &i) in signers.iter().enumerate() {
        let k = &pool.sig[i];
        let r = nopanic!(ctx, signed.verify_signature_from_returning_metadata(&k.public), "metadata", "C09/metadata");
        let r = tryp!(ctx, r.map_err(|x| format!("verify_signature_from_returning_metadata failed for signer {}#{}: {}", k.scheme, i, x)), "metadata", "C09/metadata");
        let rm = tryp!(ctx, bridge::read_out(&r), "readout", "C09/readout");
        tryp!(ctx, check_metadata(&signed, &r, &rm, k, &subject_digest), "metadata", "C09/metadata/uncovered");
        match &with_md[n] {
            Some(expected) => {
                let got: BTreeSet<D32> = rm.assertions().iter().map(|a| a.digest()).collect();
                let want: BTreeSet<D32> = expected.iter().map(|a| a.digest()).collect();
                check!(ctx, got == want, "metadata", "C09/metadata/content", "metadata returned for {}#{} is not what was signed: {}", k.scheme, i, rm.show());
            }
            None => {
                check!(ctx, rm.assertions().is_empty(), "metadata", "C09/metadata/content", "metadata returned for a signature made without metadata: {}", rm.show());
            }
        }
    }

    // --- thresholds
    let l_len = 1 + src.below(5);
    let mut list: Vec<usize> = Vec::new();
    for _ in 0..l_len {
        // bias towards signers so that interesting counts occur
        let i = if src.bool() { signers[src.below(signers.len())] } else { src.below(pool.sig.len()) };
        if !list.contains(&i) {
            list.push(i);
        }
    }
    let verifiers: Vec<&dyn Verifier> = list.iter().map(|i| &pool.sig[*i].public as &dyn Verifier).collect();
    let have = list.iter().filter(|i| signers.contains(i)).count();
    for t in std::iter::once(None).chain((1..=list.len() + 1).map(Some)) {
        let need = t.unwrap_or(list.len());
        let want = have >= need;
        let r = nopanic!(ctx, signed.has_signatures_from_threshold(&verifiers, t), "threshold", "C09/threshold");
        check!(ctx, matches!(r, Ok(x) if x == want), "threshold", "C09/threshold", "has_signatures_from_threshold(|L|={}, t={:?}) = {:?}, but {} of the listed keys signed", list.len(), t, r.as_ref().map_err(|x| x.to_string()), have);
        let v = nopanic!(ctx, signed.verify_signatures_from_threshold(&verifiers, t), "threshold", "C09/threshold");
        check!(ctx, v.is_ok() == want, "threshold", "C09/threshold", "verify_signatures_from_threshold(|L|={}, t={:?}) is {} but {} of the listed keys signed", list.len(), t, if v.is_ok() { "Ok" } else { "Err" }, have);
        if t.is_none() {
            let r2 = nopanic!(ctx, signed.has_signatures_from(&verifiers), "threshold", "C09/threshold");
            check!(ctx, matches!(r2, Ok(x) if x == want), "threshold", "C09/threshold", "has_signatures_from disagrees with the all-keys rule");
        }
    }
    // an empty key list: no key has signed, so no threshold of one or more is met
    {
        let none: Vec<&dyn Verifier> = Vec::new();
        for t in [Some(1usize), Some(2)] {
            let r = nopanic!(ctx, signed.has_signatures_from_threshold(&none, t), "threshold", "C09/threshold/empty-list");
            check!(ctx, !matches!(r, Ok(true)), "threshold", "C09/threshold/empty-list", "has_signatures_from_threshold(no keys, t={:?}) = Ok(true)", t);
            let v = nopanic!(ctx, signed.verify_signatures_from_threshold(&none, t), "threshold", "C09/threshold/empty-list");
            check!(ctx, v.is_err(), "threshold", "C09/threshold/empty-list", "verify_signatures_from_threshold(no keys, t={:?}) succeeded", t);
        }
    }
    ctx.class(&format!("threshold:have={}of{}", have.min(3), list.len().min(5)));

    // --- wrapped sign / verify
    {
        let k = &pool.sig[signers[0]];
        let s = nopanic!(ctx, e.sign_opt(&k.private, k.options()), "sign-wrapped", "C09/sign-wrapped");
        if nopanic!(ctx, unreadable_fresh_signature(&s), "sign-wrapped", "C09/sign-wrapped") {
            ctx.excluded_known += 1;
            check!(ctx, false, "sign-wrapped", SSH_ECDSA_KEY, "a signature the library just added cannot be decoded again (SSH-ECDSA signature encoding, dependency defect)");
        }
        let v = nopanic!(ctx, s.verify(&k.public), "sign-wrapped", "C09/sign-wrapped");
        let v = tryp!(ctx, v.map_err(|x| format!("verify() of sign() failed: {}", x)), "sign-wrapped", "C09/sign-wrapped");
        check!(ctx, v.to_cbor_data() == e.to_cbor_data(), "sign-wrapped", "C09/sign-wrapped", "verify(sign(e)) is not e");
        let other = &pool.sig[(signers[0] + 1) % pool.sig.len()];
        let bad = nopanic!(ctx, s.verify(&other.public), "sign-wrapped", "C09/sign-wrapped");
        check!(ctx, bad.is_err(), "sign-wrapped", "C09/sign-wrapped", "verify() succeeded under a key that did not sign");
    }

    // --- adversarial 'signed' assertions
    let adv = src.below(5);
    let victim_i = signers[0];
    let victim = &pool.sig[victim_i];
    let outsider_i = (0..pool.sig.len()).find(|i| !signers.contains(i)).unwrap();
    let outsider = &pool.sig[outsider_i];
    let adv_name = ["none", "transplanted", "forged-metadata-no-outer", "outer-by-other-key", "non-signature-inner"][adv];
    ctx.class(&format!("adversarial:{}", adv_name));
    match adv {
        1 => {
            // the victim's signature over ANOTHER subject, attached to e
            let other_subject = Envelope::new(format!("another subject {}", src.below(1000)));
            let signed_other = other_subject.add_signature_opt(&outsider.private, outsider.options(), None);
            let stolen = signed_other.assertions_with_predicate(known_values::SIGNED)[0].clone();
            let forged = e.add_assertion_envelope(stolen).unwrap();
            let r = nopanic!(ctx, forged.has_signature_from(&outsider.public), "adversarial", "C09/adversarial/transplanted");
            check!(ctx, !matches!(r, Ok(true)), "adversarial", "C09/adversarial/transplanted", "a signature made over another subject verifies");
            let r = nopanic!(ctx, forged.verify_signature_from_returning_metadata(&outsider.public), "adversarial", "C09/adversarial/transplanted");
            check!(ctx, r.is_err(), "adversarial", "C09/adversarial/transplanted", "metadata returned for a transplanted signature");
            // the same with a signature that carries metadata, and with the new subject obscured afterwards
            let md = SignatureMetadata::new().with_assertion(known_values::NOTE, "genuine note");
            let signed_other_md = other_subject.add_signature_opt(&outsider.private, outsider.options(), Some(md));
            let stolen_md = signed_other_md.assertions_with_predicate(known_values::SIGNED)[0].clone();
            let forged_md = e.add_assertion_envelope(stolen_md).unwrap();
            let variants: Vec<(&str, Envelope)> = vec![
                ("plain", forged_md.clone()),
                ("subject-elided", forged_md.elide_removing_target(&forged_md.subject())),
                ("subject-encrypted", forged_md.encrypt_subject(&bridge::case_key()).unwrap_or(forged_md.clone())),
                ("subject-compressed", forged_md.compress_subject().unwrap_or(forged_md.clone())),
            ];
            for (vn, v) in variants {
                let r = nopanic!(ctx, v.has_signature_from(&outsider.public), "adversarial", "C09/adversarial/transplanted");
                check!(ctx, !matches!(r, Ok(true)), "adversarial", "C09/adversarial/transplanted-metadata", "a signature with metadata made over another subject verifies ({})", vn);
                let r = nopanic!(ctx, v.verify_signature_from_returning_metadata(&outsider.public), "adversarial", "C09/adversarial/transplanted");
                check!(ctx, r.is_err(), "adversarial", "C09/adversarial/transplanted-metadata", "metadata returned for a signature with metadata transplanted from another subject ({})", vn);
            }
            ctx.nontrivial = true;
        }
        2 | 3 | 4 => {
            // the attacker holds a valid plain signature of the OUTSIDER over this subject (e.g. copied from
            // another copy of the document) — here produced directly — and decorates it.
            let sig = sign_digest(outsider, &subject_digest);
            let inner = match adv {
                4 => Envelope::new("not a signature").add_assertion(known_values::NOTE, "forged note"),
                _ => Envelope::new(sig.clone()).add_assertion(known_values::NOTE, "forged note"),
            };
            let wrapped = inner.wrap_envelope();
            let object = match adv {
                2 => wrapped.clone(), // no outer signature at all
                3 => {
                    // outer signature by a different key (the victim's, say — any key but the outsider's)
                    let outer = sign_digest(victim, wrapped.digest().data());
                    wrapped.add_assertion(known_values::SIGNED, outer)
                }
                _ => {
                    let outer = sign_digest(outsider, wrapped.digest().data());
                    wrapped.add_assertion(known_values::SIGNED, outer)
                }
            };
            let forged = e.add_assertion(known_values::SIGNED, object);
            let key = format!("C09/adversarial/{}", adv_name);
            let r = nopanic!(ctx, forged.verify_signature_from_returning_metadata(&outsider.public), "adversarial", &key);
            match adv {
                2 => {
                    // valid inner signature, but the metadata is covered by nobody: must not be handed out
                    check!(ctx, r.is_err(), "adversarial", &key, "metadata that no outer signature covers was returned as verified: {}", r.as_ref().map(|x| x.format_flat()).unwrap_or_default());
                    let h = nopanic!(ctx, forged.has_signature_from_returning_metadata(&outsider.public), "adversarial", &key);
                    check!(ctx, !matches!(h, Ok(Some(_))), "adversarial", &key, "has_signature_from_returning_metadata returned uncovered metadata");
                }
                3 => {
                    check!(ctx, r.is_err(), "adversarial", &key, "metadata whose outer signature is by a different key was returned as verified");
                }
                _ => {
                    check!(ctx, r.is_err(), "adversarial", &key, "a non-signature inner object was returned as verified metadata");
                }
            }
            // and the legitimately signed envelope plus the forgery: a signer still never gets Ok(false)
            let both = signed.add_assertion_envelope(forged.assertions_with_predicate(known_values::SIGNED)[0].clone()).unwrap();
            let r = nopanic!(ctx, both.has_signature_from(&victim.public), "adversarial", &key);
            check!(ctx, !matches!(r, Ok(false)), "adversarial", &key, "a forged 'signed' assertion made a genuine signer's signature report false");
            if let Ok(mdv) = nopanic!(ctx, both.verify_signature_from_returning_metadata(&outsider.public), "adversarial", &key) {
                let rm = tryp!(ctx, bridge::read_out(&mdv), "readout", "C09/readout");
                tryp!(ctx, check_metadata(&both, &mdv, &rm, outsider, &subject_digest), "adversarial", &format!("{}/uncovered", key));
            }
            ctx.nontrivial = true;
        }
        _ => {}
    }
    // --- drawn last (recorded choice sequences keep their meaning): the same envelope as the SUBJECT of
    // an outer node (node-as-subject, the shape uncompress_subject / decrypt_subject / the decoder
    // produce), signed by two keys with or without metadata; then one element somewhere inside one
    // signer's 'signed' assertion is obscured and the other signer must verify as before.
    if src.chance(56) {
        let ns = e.compress().and_then(|c| c.add_assertion("outer", src.below(100) as u64).uncompress_subject());
        if let Ok(ns) = ns {
            let want_subject = bridge::d32(&e.digest());
            check!(ctx, bridge::d32(&ns.subject().digest()) == want_subject, "node-subject", "C09/node-subject/build", "building the node-as-subject envelope changed the inner digest");
            ctx.class(if e.is_node() { "node-subject:node" } else { "node-subject:other" });
            let a_i = signers[0];
            let b_i = if signers.len() > 1 { signers[1] } else { (signers[0] + 1) % pool.sig.len() };
            let mut s2 = ns.clone();
            let mut own: Vec<D32> = Vec::new();
            let mut mds: Vec<bool> = Vec::new();
            for &i in &[a_i, b_i] {
                let k = &pool.sig[i];
                let md = if src.chance(150) { Some(metadata_for(i, &mut src).0) } else { None };
                mds.push(md.is_some());
                let before: BTreeSet<D32> = s2.assertions().iter().map(|a| bridge::d32(&a.digest())).collect();
                s2 = nopanic!(ctx, s2.add_signature_opt(&k.private, k.options(), md), "node-subject", "C09/node-subject/sign");
                let new: Vec<D32> = s2.assertions().iter().map(|a| bridge::d32(&a.digest())).filter(|d| !before.contains(d)).collect();
                check!(ctx, new.len() == 1, "node-subject", "C09/node-subject/sign", "adding a signature added {} assertions", new.len());
                own.push(new[0]);
            }
            if nopanic!(ctx, unreadable_fresh_signature(&s2), "node-subject", "C09/node-subject/sign") {
                ctx.excluded_known += 1;
                check!(ctx, false, "node-subject", SSH_ECDSA_KEY, "a signature the library just added cannot be decoded again (SSH-ECDSA signature encoding, dependency defect)");
            }
            for (n, &i) in [a_i, b_i].iter().enumerate() {
                let k = &pool.sig[i];
                let r = nopanic!(ctx, s2.has_signature_from(&k.public), "node-subject", "C09/node-subject/verify");
                check!(ctx, matches!(r, Ok(true)), "node-subject", "C09/node-subject/verify", "signature by {}#{} (metadata: {}) does not verify on an envelope whose subject is a node: {:?}", k.scheme, i, mds[n], r.as_ref().map_err(|x| x.to_string()));
                let r = nopanic!(ctx, s2.verify_signature_from_returning_metadata(&k.public), "node-subject", "C09/node-subject/verify");
                let r = tryp!(ctx, r.map_err(|x| format!("verify_signature_from_returning_metadata on a node-subject envelope failed for {}#{}: {}", k.scheme, i, x)), "node-subject", "C09/node-subject/verify");
                let rm = tryp!(ctx, bridge::read_out(&r), "readout", "C09/readout");
                tryp!(ctx, check_metadata(&s2, &r, &rm, k, &want_subject), "node-subject", "C09/node-subject/uncovered");
                check!(ctx, rm.assertions().is_empty() != mds[n], "node-subject", "C09/node-subject/verify", "metadata presence differs from what was signed");
            }
            let outsider_i = (0..pool.sig.len()).find(|i| *i != a_i && *i != b_i).unwrap();
            let r = nopanic!(ctx, s2.has_signature_from(&pool.sig[outsider_i].public), "node-subject", "C09/node-subject/verify");
            check!(ctx, !matches!(r, Ok(true)), "node-subject", "C09/node-subject/verify", "a key that did not sign verifies on the node-subject envelope");
            // obscure one element strictly inside the second signer's 'signed' assertion
            let s2m = tryp!(ctx, bridge::read_out(&s2), "readout", "C09/readout");
            if let Some(am) = s2m.assertions().iter().find(|a| a.digest() == own[1]) {
                let inner = am.elements();
                // the predicate 'signed' is shared by every signature assertion: leave it
                let cands: Vec<&&M> = inner.iter().skip(1).filter(|x| x.digest() != M::Known(3).digest()).collect();
                if !cands.is_empty() {
                    let v = cands[src.below(cands.len())];
                    let action = match src.below(3) {
                        0 => Obs::Elide,
                        1 => Obs::Encrypt,
                        _ => Obs::Compress,
                    };
                    let mut t = BTreeSet::new();
                    t.insert(v.digest());
                    let damaged = nopanic!(ctx, s2.elide_removing_set_with_action(&to_hashset(&t), &action_of(action)), "node-subject", "C09/inner-victim");
                    ctx.class(&format!("inner-victim:{:?}:{}", v.kind(), if mds[1] { "with-metadata" } else { "plain" }));
                    let k = &pool.sig[a_i];
                    let r = nopanic!(ctx, damaged.has_signature_from(&k.public), "node-subject", "C09/inner-victim");
                    check!(ctx, matches!(r, Ok(true)), "node-subject", "C09/inner-victim", "after {:?} of one element ({}) inside ANOTHER signer's 'signed' assertion, the intact signature by {}#{} no longer verifies: {:?}", action, v.show(), k.scheme, a_i, r.as_ref().map_err(|x| x.to_string()));
                    let r = nopanic!(ctx, damaged.has_signature_from(&pool.sig[outsider_i].public), "node-subject", "C09/inner-victim");
                    check!(ctx, !matches!(r, Ok(true)), "node-subject", "C09/inner-victim", "a key that did not sign verifies after an element of a signature was obscured");
                }
            }
            ctx.nontrivial = true;
        }
    }
    // --- a 'signed' assertion that carries assertions of its own: the note of make_signed_assertion(),
    // or a salt (add_assertion_envelope_salted). The signature in it is as valid as a bare one.
    if src.chance(48) {
        let k = &pool.sig[signers[0]];
        let sig = sign_digest(k, &subject_digest);
        let route = src.below(3);
        let decorated = match route {
            0 => e.make_signed_assertion(&sig, Some("a note on the signature")),
            1 => e.make_signed_assertion(&sig, None).add_salt(),
            _ => e.make_signed_assertion(&sig, None),
        };
        let with = match route {
            2 => nopanic!(ctx, e.add_assertion_envelope_salted(decorated, true).map_err(|x| x.to_string()), "decorated", "C09/decorated-signed-assertion"),
            _ => nopanic!(ctx, e.add_assertion_envelope(decorated).map_err(|x| x.to_string()), "decorated", "C09/decorated-signed-assertion"),
        };
        let with = tryp!(ctx, with, "decorated", "C09/decorated-signed-assertion");
        ctx.class(["decorated-signed:note", "decorated-signed:salt", "decorated-signed:salted-add"][route]);
        if nopanic!(ctx, unreadable_fresh_signature(&with), "decorated", "C09/decorated-signed-assertion") {
            ctx.excluded_known += 1;
            check!(ctx, false, "decorated", SSH_ECDSA_KEY, "a signature the library just added cannot be decoded again (SSH-ECDSA signature encoding, dependency defect)");
        }
        let r = nopanic!(ctx, with.has_signature_from(&k.public), "decorated", "C09/decorated-signed-assertion");
        check!(ctx, matches!(r, Ok(true)), "decorated", "C09/decorated-signed-assertion", "a valid signature by {}#{} inside a 'signed' assertion that carries its own assertions ({}) is not recognised: {:?}", k.scheme, signers[0], ["note", "salt", "salted add"][route], r.as_ref().map_err(|x| x.to_string()));
        let v = nopanic!(ctx, with.verify_signature_from(&k.public), "decorated", "C09/decorated-signed-assertion");
        check!(ctx, v.is_ok(), "decorated", "C09/decorated-signed-assertion", "verify_signature_from fails for a decorated 'signed' assertion");
        let vs: Vec<&dyn Verifier> = vec![&k.public];
        let t = nopanic!(ctx, with.has_signatures_from_threshold(&vs, Some(1)), "decorated", "C09/decorated-signed-assertion");
        check!(ctx, matches!(t, Ok(true)), "decorated", "C09/decorated-signed-assertion", "threshold verification does not count a decorated 'signed' assertion");
        let outsider_i = (0..pool.sig.len()).find(|i| *i != signers[0]).unwrap();
        let r = nopanic!(ctx, with.has_signature_from(&pool.sig[outsider_i].public), "decorated", "C09/decorated-signed-assertion");
        check!(ctx, !matches!(r, Ok(true)), "decorated", "C09/decorated-signed-assertion", "a key that did not sign verifies");
        ctx.nontrivial = true;
    }
    // --- a valid plain signature whose object was given assertions WITHOUT wrapping and counter-signing:
    // 'signed': Signature [ 'note': "forged" ]. Whatever is returned as metadata for the key must be
    // covered by that key - the forged note is covered by nobody. (drawn late)
    if src.chance(40) {
        let k = &pool.sig[signers[0]];
        let sig = sign_digest(k, &subject_digest);
        let object = Envelope::new(sig).add_assertion(known_values::NOTE, "a note nobody signed");
        let forged = e.add_assertion(known_values::SIGNED, object);
        if !nopanic!(ctx, unreadable_fresh_signature(&forged), "adversarial", "C09/adversarial/decorated-plain-signature") {
            ctx.class("adversarial:decorated-plain-signature");
            let r = nopanic!(ctx, forged.verify_signature_from_returning_metadata(&k.public), "adversarial", "C09/adversarial/decorated-plain-signature");
            if let Ok(mdv) = r {
                let rm = tryp!(ctx, bridge::read_out(&mdv), "readout", "C09/readout");
                tryp!(ctx, check_metadata(&forged, &mdv, &rm, k, &subject_digest).map_err(|x| format!("'signed': Signature ['note': ..] (assertions put directly on a valid signature, no wrapping, no outer signature): {} - returned {}", x, rm.show())), "adversarial", "C09/adversarial/decorated-plain-signature/uncovered");
            }
            let h = nopanic!(ctx, forged.has_signature_from_returning_metadata(&k.public), "adversarial", "C09/adversarial/decorated-plain-signature");
            if let Ok(Some(mdv)) = h {
                let rm = tryp!(ctx, bridge::read_out(&mdv), "readout", "C09/readout");
                tryp!(ctx, check_metadata(&forged, &mdv, &rm, k, &subject_digest), "adversarial", "C09/adversarial/decorated-plain-signature/uncovered");
            }
            ctx.nontrivial = true;
        }
    }
    // --- the 'signed' predicate itself obscured after signing (lookups go by digest), and one key signing
    // twice (a threshold counts signers, not signatures). Drawn last.
    if src.chance(64) {
        let action = match src.below(3) {
            0 => Obs::Elide,
            1 => Obs::Encrypt,
            _ => Obs::Compress,
        };
        let hidden = nopanic!(ctx, signed.elide_removing_target_with_action(&Envelope::new(known_values::SIGNED), &action_of(action)), "predicate-obscured", "C09/predicate-obscured");
        check!(ctx, hidden.digest() == signed.digest(), "predicate-obscured", "C09/predicate-obscured", "obscuring the 'signed' predicate changed the digest");
        ctx.class(&format!("signed-predicate-obscured:{:?}", action));
        for &i in &signers {
            let k = &pool.sig[i];
            let r = nopanic!(ctx, hidden.has_signature_from(&k.public), "predicate-obscured", "C09/predicate-obscured");
            check!(ctx, matches!(r, Ok(true)), "predicate-obscured", "C09/predicate-obscured", "after {:?} of the predicate 'signed' (no digest changed) the signature by {}#{} is no longer found: {:?}", action, k.scheme, i, r.as_ref().map_err(|x| x.to_string()));
        }
        let vs: Vec<&dyn Verifier> = signers.iter().map(|i| &pool.sig[*i].public as &dyn Verifier).collect();
        let r = nopanic!(ctx, hidden.has_signatures_from(&vs), "predicate-obscured", "C09/predicate-obscured");
        check!(ctx, matches!(r, Ok(true)), "predicate-obscured", "C09/predicate-obscured", "has_signatures_from over all signers is not true after the predicate was obscured");
        // one key signs twice
        let k0 = &pool.sig[signers[0]];
        let twice = nopanic!(ctx, signed.add_signature_opt(&k0.private, k0.options(), None), "double-signer", "C09/double-signer");
        let twice = nopanic!(ctx, twice.add_signature_opt(&k0.private, k0.options(), None), "double-signer", "C09/double-signer");
        if !nopanic!(ctx, unreadable_fresh_signature(&twice), "double-signer", "C09/double-signer") {
            let n_sigs = twice.assertions_with_predicate(known_values::SIGNED).len();
            ctx.class(if n_sigs > signers.len() + 1 { "double-signer:two-distinct-signatures" } else { "double-signer:deterministic" });
            let outsider_i = (0..pool.sig.len()).find(|i| !signers.contains(i)).unwrap();
            let list: Vec<&dyn Verifier> = vec![&k0.public, &pool.sig[outsider_i].public];
            for t in [None, Some(1usize), Some(2)] {
                let want = matches!(t, Some(1));
                let r = nopanic!(ctx, twice.has_signatures_from_threshold(&list, t), "double-signer", "C09/double-signer");
                check!(ctx, matches!(r, Ok(x) if x == want), "double-signer", "C09/double-signer", "keys [signer, non-signer], the signer signed {} times: has_signatures_from_threshold(t={:?}) = {:?}, expected {}", n_sigs - signers.len() + 1, t, r.as_ref().map_err(|x| x.to_string()), want);
                let v = nopanic!(ctx, twice.verify_signatures_from_threshold(&list, t), "double-signer", "C09/double-signer");
                check!(ctx, v.is_ok() == want, "double-signer", "C09/double-signer", "verify_signatures_from_threshold(t={:?}) is {} with one signer of two keys", t, if v.is_ok() { "Ok" } else { "Err" });
            }
        }
        ctx.nontrivial = true;
    }
    if signers.len() >= 2 || changed {
        ctx.nontrivial = true;
    }
    Outcome::Pass
}

/// Independent check that a returned metadata envelope is what the property promises: its subject is
/// a signature of `k` over the envelope's subject digest, and if it carries assertions then some
/// 'signed' assertion of `env` has as object wrapped(metadata) with an outer signature by `k` over the
/// wrapped envelope's digest.
fn check_metadata(env: &Envelope, md: &Envelope, mdm: &M, k: &SigKey, subject_digest: &D32) -> Result<(), String> {
    let sig = md.subject().extract_subject::<Signature>().map_err(|_| "returned metadata envelope's subject is not a signature".to_string())?;
    if !k.public.verify(&sig, &subject_digest.as_slice()) {
        return Err("signature in the returned metadata envelope does not verify under the key over the subject digest".into());
    }
    if mdm.assertions().is_empty() {
        return Ok(());
    }
    let wrapped_digest = M::wrapped(mdm.clone()).digest();
    for a in env.assertions_with_predicate(known_values::SIGNED) {
        let Some(obj) = a.subject().as_object() else { continue };
        if !obj.subject().is_wrapped() || bridge::d32(&obj.subject().digest()) != wrapped_digest {
            continue;
        }
        for outer in obj.assertions_with_predicate(known_values::SIGNED) {
            if let Some(o) = outer.subject().as_object() {
                if let Ok(osig) = o.extract_subject::<Signature>() {
                    if k.public.verify(&osig, &wrapped_digest.as_slice()) {
                        return Ok(());
                    }
                }
            }
        }
    }
    Err(format!("returned metadata {} is not covered by an outer signature from the same key", mdm.show()))
}
