//! C16 — no operation panics on any envelope.

use crate::bridge::{self, build_a, build_b, case_key, dig, spec_model, to_hashset};
use crate::cbor;
use crate::engine::{guard, panic_site, Ctx, Outcome, Prop};
use crate::gen::{self, GenCfg, Obs};
use crate::keys;
use crate::model::M;
use crate::props::c02::{action_of, apply_elide, gen_obs};
use crate::props::c06;
use crate::src::Src;
use crate::tryp;
use bc_components::{Digest, DigestProvider, SSKRGroupSpec, SSKRSpec, Signature, SymmetricKey, Verifier, ARID};
use bc_envelope::prelude::*;
use bc_envelope::{known_values, Attachments, Event, Expression, Function, KnownValue, Request, Response};
use std::collections::HashSet;

pub fn prop() -> Prop {
    Prop {
        id: "C16",
        run,
        max_len: 700,
        quick: 300_000,
        thorough: 2_500_000,
        rule: "choice sequence -> envelope from the union of all generators: library-built (route A), decoded from the harness encoder (route B: node-as-subject etc.), decoded structural/byte mutants that the decoder accepts, and DECORATED envelopes (on each of the known predicates 'signed', 'hasRecipient', 'sskrShare', 'isA', 'attachment', 'body', 'result', 'error', 'content', 'note', 'date', 'vendor', 'conformsTo', 'salt': a valid object, a bogus object, the assertion salted i.e. carrying its own assertions, the assertion / its object / its predicate elided, encrypted or compressed, and the predicate repeated) x 6-14 operations drawn from a table of 120 public entry points in the query / transform / obscure / verify / parse / format families with generated arguments (predicates present and absent, target sets, right and wrong keys, level limits, thresholds, salt lengths). oracle: every call returns (value, None or Err) — a panic is a violation, keyed by entry point and panic site. Calls whose documented contract is to panic are not in the table (add_assertions with a non-assertion, Response::with_result on a failure, expect_id, add_salt_in_range with an empty range). non-trivial: envelope has >=1 decorated or obscured element and >=1 op is not a pure getter; distinct by FNV-64 of (encoding, op indices); related operations also call Display / Debug, the generic elide_set/array/target(_with_action) forms, the *_opt / *_using variants, add_signatures(_opt), add_assertions_salted, tree_format_with_target_opt and the Attachments container; salted assertions decorated a second time on the outside (node in node); elements the add API refuses enter through the decoder; sealed messages that hold junk, truncated share objects",
        assumptions: &["process aborts (stack overflow) are out of reach of catch_unwind; nesting depth is bounded by the generators (<= 10) and the decode stream (<= 64)"],
        extra: None,
    }
}

const DECOR_PREDICATES: [u64; 14] = [3, 5, 6, 1, 50, 100, 101, 102, 108, 4, 16, 51, 52, 15];

/// Add decorated assertions on well-known predicates.
fn decorate(e: Envelope, src: &mut Src, ctx: &mut Ctx) -> Envelope {
    let pool = keys::core_pool();
    let mut e = e;
    // a quarter of the decorated inputs are otherwise well-formed request / response / event envelopes, so
    // that the parsers get past their subject checks and meet the decorated 'body' / 'result' / 'error' /
    // 'content' / 'note' / 'date' assertions
    let family = src.below(8);
    if family < 3 {
        let tag = [40004u64, 40005, 40026][family];
        let subject = Envelope::new(CBOR::to_tagged_value(tag, ARID::from_data([src.byte(); 32])));
        e = e.replace_subject(subject);
        ctx.class("decor:expression-family-subject");
    }
    let family_preds: [u64; 6] = [100, 101, 102, 108, 4, 16];
    let n = 1 + src.below(4);
    for _ in 0..n {
        let pv = if family < 3 && src.chance(170) { family_preds[src.below(family_preds.len())] } else { DECOR_PREDICATES[src.below(DECOR_PREDICATES.len())] };
        let pred = bridge::known(pv);
        // object: valid for the predicate, or bogus
        let valid = src.chance(140);
        let object: Envelope = if valid {
            match pv {
                3 => {
                    let k = &pool.sig[src.below(pool.sig.len())];
                    let d = *e.subject().digest().data();
                    let sig = bc_components::Signer::sign_with_options(&k.private, &d.as_slice(), k.options()).unwrap();
                    if src.chance(64) {
                        // with (unsigned or signed) metadata wrapper
                        let w = Envelope::new(sig).add_assertion(known_values::NOTE, "n").wrap_envelope();
                        if src.bool() {
                            let outer = bc_components::Signer::sign_with_options(&k.private, &w.digest().data().as_slice(), k.options()).unwrap();
                            w.add_assertion(known_values::SIGNED, outer)
                        } else {
                            w
                        }
                    } else {
                        Envelope::new(sig)
                    }
                }
                5 => {
                    let k = &pool.enc[src.below(pool.enc.len())];
                    // a proper content key inside - or, for every other envelope (by its digest, no draw), something
                    // that opens with the recipient's key but is no content key at all: anyone who knows the public
                    // key can make such a sealed message
                    let plaintext = match e.digest().data()[0] % 4 {
                        0 => b"not a content key".to_vec(),
                        1 => vec![],
                        _ => case_key().to_cbor_data(),
                    };
                    let sealed = bc_components::SealedMessage::new(plaintext, &k.public);
                    Envelope::new(sealed)
                }
                6 => {
                    let spec = SSKRSpec::new(1, vec![SSKRGroupSpec::new(1, 2).unwrap()]).unwrap();
                    let shares = bc_components::sskr_generate(&spec, &bc_components::SSKRSecret::new(case_key().data()).unwrap()).unwrap();
                    let pick = src.below(2);
                    if e.digest().data()[1] % 4 == 0 {
                        // a share object of the right type, truncated
                        Envelope::new(bc_components::SSKRShare::from_data(shares[0][pick].data()[..(e.digest().data()[2] % 6) as usize].to_vec()))
                    } else {
                        Envelope::new(shares[0][pick].clone())
                    }
                }
                1 => bridge::known(*src.pick(&[200u64, 201, 1, 7])),
                50 => Envelope::new("payload").wrap_envelope().add_assertion(known_values::VENDOR, "com.example").add_optional_assertion(known_values::CONFORMS_TO, if src.bool() { Some("v1") } else { None }),
                100 => Envelope::new(Function::from(*src.pick(&[1u64, 2, 100]))).add_assertion(bc_envelope::Parameter::from(1u64), 2),
                101 | 102 | 108 => Envelope::new("value"),
                4 | 51 | 52 => Envelope::new("text"),
                16 => Envelope::new(dcbor::Date::from_timestamp(1_700_000_000.0)),
                _ => Envelope::new(bc_components::Salt::new_with_len(16).unwrap()),
            }
        } else {
            match src.below(5) {
                0 => Envelope::new(42),
                1 => Envelope::new("bogus"),
                2 => Envelope::new("w").wrap_envelope(),
                3 => Envelope::new("n").add_assertion("a", "b"),
                _ => bridge::known(9999),
            }
        };
        let mut a = Envelope::new_assertion(pred.clone(), object.clone());
        let form = src.below(9);
        let form_name = ["plain", "salted", "assertion-elided", "assertion-encrypted", "assertion-compressed", "object-obscured", "predicate-elided", "repeated", "salted-then-obscured"][form];
        ctx.class(&format!("decor:{}", form_name));
        ctx.class(&format!("decor-pred:{}", pv));
        match form {
            1 => {
                a = a.add_salt();
                // one salted assertion in three is decorated a second time on the OUTSIDE: a node whose subject
                // is the salted assertion node (the shape uncompress_subject / decrypt_subject / the decoder
                // produce for an assertion annotated while it was obscured). Decided by the salt, no draw.
                if a.digest().data()[0] % 3 == 0 {
                    if let Ok(n) = a.compress().and_then(|c| c.add_assertion(known_values::NOTE, "annotated while compressed").uncompress_subject()) {
                        ctx.class("decor:twice-decorated(node-in-node)");
                        a = n;
                    }
                }
            }
            2 => a = a.elide(),
            3 => a = a.elide_removing_target_with_action(&a, &ObscureAction::Encrypt(case_key())),
            4 => a = a.compress().unwrap_or(a),
            5 => {
                let act = action_of(gen_obs(src));
                a = a.elide_removing_target_with_action(&object, &act);
            }
            6 => a = a.elide_removing_target(&pred),
            7 => {
                let second = Envelope::new_assertion(pred.clone(), Envelope::new(format!("second {}", src.below(10))));
                e = e.add_assertion_envelope(second).unwrap_or(e);
            }
            8 => {
                a = a.add_salt();
                a = a.elide_removing_target_with_action(&object, &action_of(gen_obs(src)));
            }
            _ => {}
        }
        // if the add API refuses the element, the same envelope is obtained through the decoder (which has its
        // own validity rule): operations must cope with whatever either route lets in
        e = match e.add_assertion_envelope(a.clone()) {
            Ok(x) => x,
            Err(_) => match (bridge::read_out(&e), bridge::read_out(&a)) {
                (Ok(em), Ok(am)) => match bridge::build_b(&em.add(am)) {
                    Ok(x) => {
                        ctx.class("decor:refused-by-add-accepted-by-decoder");
                        x
                    }
                    Err(_) => e,
                },
                _ => e,
            },
        };
    }
    e
}

pub const N_OPS: usize = 120;

/// Run operation `i` on `e`. Everything inside is library code under test (plus argument set-up).
fn run_op(i: usize, e: &Envelope, src: &mut Src) -> &'static str {
    let pool = keys::core_pool();
    let pv = DECOR_PREDICATES[src.below(DECOR_PREDICATES.len())];
    let pred = || bridge::known(pv);
    let text_pred = gen::POOL[src.below(gen::POOL.len())];
    let key = case_key();
    let wrong_key = bridge::other_key();
    let sk = &pool.sig[src.below(pool.sig.len())];
    let ek = &pool.enc[src.below(pool.enc.len())];
    let some_digests: Vec<Digest> = {
        let all: Vec<Digest> = e.deep_digests().into_iter().collect();
        let mut v = Vec::new();
        let mut sorted = all;
        sorted.sort();
        for _ in 0..src.below(4) {
            if !sorted.is_empty() {
                v.push(sorted[src.below(sorted.len())].clone());
            }
        }
        if src.chance(40) {
            v.push(Digest::from_image(b"absent"));
        }
        v
    };
    let hs: HashSet<Digest> = some_digests.iter().cloned().collect();
    let a_child = {
        let a = e.assertions();
        if a.is_empty() {
            e.clone()
        } else {
            a[src.below(a.len())].clone()
        }
    };
    match i {
        // ---- queries
        0 => { let _ = e.subject(); "subject" }
        1 => { let _ = e.assertions(); "assertions" }
        2 => { let _ = (e.has_assertions(), e.as_assertion(), e.try_assertion().is_ok()); "as_assertion" }
        3 => { let _ = (e.as_predicate(), e.try_predicate().is_ok(), e.as_object(), e.try_object().is_ok()); "as_predicate/as_object" }
        4 => { let _ = (e.as_leaf(), e.try_leaf().is_ok(), e.try_byte_string().is_ok()); "as_leaf" }
        5 => { let _ = (e.as_known_value().is_some(), e.try_known_value().is_ok()); "as_known_value" }
        6 => { let _ = (e.is_leaf(), e.is_node(), e.is_wrapped(), e.is_known_value(), e.is_assertion(), e.is_encrypted(), e.is_compressed(), e.is_elided()); "is_*" }
        7 => { let _ = (e.is_subject_assertion(), e.is_subject_encrypted(), e.is_subject_compressed(), e.is_subject_elided(), e.is_subject_obscured(), e.is_internal(), e.is_obscured()); "is_subject_*" }
        8 => { let _ = (e.is_true(), e.is_false(), e.is_null()); "is_true/false/null" }
        9 => { let _ = e.extract_subject::<String>().is_ok(); let _ = e.extract_subject::<i64>().is_ok(); let _ = e.extract_subject::<f64>().is_ok(); "extract_subject<scalar>" }
        10 => { let _ = e.extract_subject::<KnownValue>().is_ok(); let _ = e.extract_subject::<Digest>().is_ok(); let _ = e.extract_subject::<Envelope>().is_ok(); let _ = e.extract_subject::<bc_envelope::Assertion>().is_ok(); "extract_subject<case types>" }
        11 => { let _ = e.extract_subject::<ARID>().is_ok(); let _ = e.extract_subject::<dcbor::Date>().is_ok(); let _ = e.extract_subject::<Signature>().is_ok(); let _ = e.extract_subject::<bc_components::SealedMessage>().is_ok(); let _ = e.extract_subject::<bc_components::SSKRShare>().is_ok(); let _ = e.extract_subject::<bc_components::EncryptedMessage>().is_ok(); let _ = e.extract_subject::<bc_components::Compressed>().is_ok(); "extract_subject<components>" }
        12 => { let _ = e.assertions_with_predicate(pred()); "assertions_with_predicate(known)" }
        13 => { let _ = e.assertions_with_predicate(text_pred); "assertions_with_predicate(text)" }
        14 => { let _ = e.assertion_with_predicate(pred()).is_ok(); "assertion_with_predicate" }
        15 => { let _ = e.optional_assertion_with_predicate(pred()).is_ok(); "optional_assertion_with_predicate" }
        16 => { let _ = e.object_for_predicate(pred()).is_ok(); "object_for_predicate" }
        17 => { let _ = e.optional_object_for_predicate(pred()).is_ok(); "optional_object_for_predicate" }
        18 => { let _ = e.objects_for_predicate(pred()); "objects_for_predicate" }
        19 => { let _ = e.try_object_for_predicate::<String>(pred()).is_ok(); let _ = e.try_optional_object_for_predicate::<String>(pred()).is_ok(); "try_object_for_predicate" }
        20 => { let _ = e.try_objects_for_predicate::<String>(pred()).is_ok(); "try_objects_for_predicate" }
        21 => { let _ = e.extract_object_for_predicate::<String>(pred()).is_ok(); let _ = e.extract_object_for_predicate::<Signature>(pred()).is_ok(); "extract_object_for_predicate" }
        22 => { let _ = e.extract_optional_object_for_predicate::<String>(pred()).is_ok(); "extract_optional_object_for_predicate" }
        23 => { let _ = e.extract_object_for_predicate_with_default::<String>(pred(), "d".to_string()).is_ok(); "extract_object_for_predicate_with_default" }
        24 => { let _ = e.extract_objects_for_predicate::<String>(pred()).is_ok(); "extract_objects_for_predicate" }
        25 => { let _ = (e.extract_object::<String>().is_ok(), e.extract_predicate::<String>().is_ok(), e.extract_predicate::<KnownValue>().is_ok()); "extract_object/extract_predicate" }
        26 => { let _ = e.elements_count(); "elements_count" }
        27 => { let _ = e.digests(src.below(6)); "digests" }
        28 => { let _ = (e.deep_digests(), e.shallow_digests()); "deep/shallow_digests" }
        29 => { let _ = e.structural_digest(); "structural_digest" }
        30 => { let _ = (e.is_equivalent_to(&a_child), e.is_identical_to(&a_child), e == &a_child); "is_equivalent/identical" }
        31 => { let v = |_: Envelope, _: usize, _: EdgeType, _: Option<()>| -> Option<()> { None }; e.walk(false, &v); e.walk(true, &v); "walk" }
        32 => { let _ = e.try_as::<String>().is_ok(); let _ = e.try_as::<u64>().is_ok(); let _ = e.try_as::<Digest>().is_ok(); let _ = e.try_as::<Signature>().is_ok(); "try_as" }
        // ---- format
        33 => { let _ = e.format(); let _ = format!("{}", e); let _ = format!("{:?}", e); "format" }
        34 => { let _ = e.format_flat(); "format_flat" }
        35 => { let _ = e.tree_format(false); "tree_format(false)" }
        36 => { let _ = e.tree_format(true); "tree_format(true)" }
        37 => { let _ = e.tree_format_with_target(src.bool(), &hs); let c = bc_envelope::FormatContext::default(); let _ = e.tree_format_with_target_opt(true, &hs, Some(&c)); let _ = e.tree_format_with_target_opt(false, &hs, None); "tree_format_with_target" }
        38 => { let _ = e.diagnostic(); "diagnostic" }
        39 => { let _ = e.diagnostic_annotated(); "diagnostic_annotated" }
        40 => { let _ = e.hex(); "hex" }
        41 => { let _ = e.short_id(); "short_id" }
        42 => { let _ = e.ur_string(); "ur_string" }
        43 => { let c = bc_envelope::FormatContext::default(); let _ = e.format_opt(Some(&c)); let _ = e.tree_format_opt(true, Some(&c)); let _ = e.summary(src.below(50), &c); "format_opt/summary" }
        44 => { let _ = e.format_opt(None); let _ = e.hex_opt(src.bool(), None); "format_opt(None)" }
        // ---- transform
        45 => { let _ = e.add_assertion(text_pred, 1); "add_assertion" }
        46 => { let _ = e.add_assertion_envelope(a_child.clone()).is_ok(); "add_assertion_envelope(element)" }
        47 => { let _ = e.add_assertion_envelope(e.subject()).is_ok(); "add_assertion_envelope(subject)" }
        48 => { let _ = e.add_assertion_envelopes(&[a_child.clone(), e.clone()]).is_ok(); "add_assertion_envelopes" }
        49 => { let _ = e.add_optional_assertion_envelope(if src.bool() { Some(a_child.clone()) } else { None }).is_ok(); "add_optional_assertion_envelope" }
        50 => { let _ = e.add_optional_assertion(text_pred, if src.bool() { Some(1) } else { None }); let _ = e.add_nonempty_string_assertion(text_pred, if src.bool() { "" } else { "s" }); "add_optional_assertion" }
        51 => { let _ = e.add_assertion_if(src.bool(), text_pred, 1); let _ = e.add_assertion_envelope_if(src.bool(), a_child.clone()).is_ok(); "add_assertion_if" }
        52 => { let _ = e.add_assertion_salted(text_pred, 1, src.bool()); "add_assertion_salted" }
        53 => { let _ = e.add_assertion_envelope_salted(a_child.clone(), src.bool()).is_ok(); let _ = e.add_optional_assertion_envelope_salted(Some(e.subject()), true).is_ok(); let mut batch = vec![Envelope::new_assertion("batch", 1), Envelope::new_assertion("batch", 2).elide()]; if a_child.is_subject_assertion() || a_child.is_subject_obscured() { batch.push(a_child.clone()); } let _ = e.add_assertions_salted(&batch, true); let _ = e.add_assertions_salted(&batch, false); "add_assertion_envelope_salted" }
        54 => { let _ = e.remove_assertion(a_child.clone()); let _ = e.remove_assertion(e.clone()); "remove_assertion" }
        55 => { let _ = e.replace_assertion(a_child.clone(), Envelope::new_assertion("r", 1)).is_ok(); let _ = e.replace_assertion(a_child.clone(), e.subject()).is_ok(); "replace_assertion" }
        56 => { let _ = e.replace_subject(Envelope::new("s")); let _ = e.replace_subject(a_child.clone()); let _ = e.replace_subject(e.clone()); "replace_subject" }
        57 => { let _ = e.wrap_envelope(); "wrap_envelope" }
        58 => { let _ = e.unwrap_envelope().is_ok(); "unwrap_envelope" }
        59 => { let _ = e.add_salt(); let mut r = bc_rand::SeededRandomNumberGenerator::new([1, 2, 3, 4]); let _ = e.add_salt_using(&mut r); let _ = e.add_salt_instance(bc_components::Salt::new_with_len(8).unwrap()); "add_salt" }
        60 => { let n = src.below(40); let _ = e.add_salt_with_len(n).is_ok(); let mut r = bc_rand::SeededRandomNumberGenerator::new([1, 2, 3, 4]); let _ = e.add_salt_with_len_using(n, &mut r).is_ok(); "add_salt_with_len" }
        61 => { let a = src.below(40); let b = a + src.below(40); let _ = e.add_salt_in_range(a..=b).is_ok(); let mut r = bc_rand::SeededRandomNumberGenerator::new([1, 2, 3, 4]); let _ = e.add_salt_in_range_using(&(a..=b), &mut r).is_ok(); "add_salt_in_range" }
        62 => { let _ = e.add_type(bridge::known(200)); let _ = e.add_type("T"); "add_type" }
        63 => { let _ = e.add_attachment(a_child.clone(), "v", if src.bool() { Some("c") } else { None }); "add_attachment" }
        // ---- obscure
        64 => { let _ = e.elide(); "elide" }
        65 => { let _ = e.elide_removing_set(&hs); let _ = e.elide_revealing_set(&hs); let _ = e.elide_set(&hs, true); let _ = e.elide_set(&hs, false); let p: Vec<&dyn DigestProvider> = some_digests.iter().map(|d| d as &dyn DigestProvider).collect(); let _ = e.elide_array(&p, true); let _ = e.elide_array(&p, false); let _ = e.elide_target(&a_child, true); let _ = e.elide_target(&a_child, false); "elide_*_set" }
        66 => { let act = action_of(gen_obs(src)); let _ = e.elide_removing_set_with_action(&hs, &act); let _ = e.elide_set_with_action(&hs, false, &act); let p: Vec<&dyn DigestProvider> = some_digests.iter().map(|d| d as &dyn DigestProvider).collect(); let _ = e.elide_array_with_action(&p, false, &act); let _ = e.elide_target_with_action(&a_child, false, &act); "elide_removing_set_with_action" }
        67 => { let act = action_of(gen_obs(src)); let _ = e.elide_revealing_set_with_action(&hs, &act); let _ = e.elide_set_with_action(&hs, true, &act); let p: Vec<&dyn DigestProvider> = some_digests.iter().map(|d| d as &dyn DigestProvider).collect(); let _ = e.elide_array_with_action(&p, true, &act); let _ = e.elide_target_with_action(&a_child, true, &act); "elide_revealing_set_with_action" }
        68 => { let p: Vec<&dyn DigestProvider> = some_digests.iter().map(|d| d as &dyn DigestProvider).collect(); let act = action_of(gen_obs(src)); let _ = e.elide_removing_array(&p); let _ = e.elide_revealing_array(&p); let _ = e.elide_removing_array_with_action(&p, &act); let _ = e.elide_revealing_array_with_action(&p, &act); "elide_*_array" }
        69 => { let act = action_of(gen_obs(src)); let _ = e.elide_removing_target(&a_child); let _ = e.elide_revealing_target(&a_child); let _ = e.elide_removing_target_with_action(&a_child, &act); let _ = e.elide_revealing_target_with_action(&a_child, &act); "elide_*_target" }
        70 => { let _ = e.unelide(a_child.clone()).is_ok(); let _ = e.elide().unelide(e.clone()).is_ok(); "unelide" }
        71 => { let _ = e.compress().is_ok(); "compress" }
        72 => { let _ = e.compress_subject().is_ok(); "compress_subject" }
        73 => { let _ = e.uncompress().is_ok(); "uncompress" }
        74 => { let _ = e.uncompress_subject().is_ok(); "uncompress_subject" }
        75 => { let _ = e.encrypt_subject(&key).is_ok(); let _ = e.encrypt_subject_opt(&key, Some(bc_components::Nonce::from_data_ref([3u8; 12]).unwrap())).is_ok(); "encrypt_subject" }
        76 => { let _ = e.decrypt_subject(&key).is_ok(); "decrypt_subject" }
        77 => { let _ = e.decrypt_subject(&wrong_key).is_ok(); "decrypt_subject(wrong key)" }
        78 => { let _ = e.encrypt(&key); "encrypt" }
        79 => { let _ = e.decrypt(&key).is_ok(); let _ = e.decrypt(&wrong_key).is_ok(); "decrypt" }
        80 => { if let Ok(x) = e.encrypt_subject(&key) { let _ = x.decrypt_subject(&key).is_ok(); let _ = x.compress().is_ok(); let _ = x.elide_removing_set(&hs); } "encrypt_subject-then" }
        // ---- verify
        81 => { let _ = e.has_signature_from(&sk.public).is_ok(); "has_signature_from" }
        82 => { let _ = e.verify_signature_from(&sk.public).is_ok(); "verify_signature_from" }
        83 => { let _ = e.has_signature_from_returning_metadata(&sk.public).is_ok(); "has_signature_from_returning_metadata" }
        84 => { let _ = e.verify_signature_from_returning_metadata(&sk.public).is_ok(); "verify_signature_from_returning_metadata" }
        85 => { let v: Vec<&dyn Verifier> = vec![&sk.public, &pool.sig[0].public]; let t = if src.bool() { None } else { Some(src.below(4)) }; let _ = e.has_signatures_from_threshold(&v, t).is_ok(); let _ = e.verify_signatures_from_threshold(&v, t).is_ok(); let _ = e.has_signatures_from(&v).is_ok(); let _ = e.verify_signatures_from(&v).is_ok(); "has_signatures_from_threshold" }
        86 => { let _ = e.verify(&sk.public).is_ok(); let _ = e.verify_returning_metadata(&sk.public).is_ok(); "verify" }
        87 => { let _ = e.add_signature_opt(&sk.private, sk.options(), None); let ks: Vec<&dyn bc_components::Signer> = vec![&pool.sig[0].private, &pool.sig[2].private]; let _ = e.add_signatures(&ks); "add_signature" }
        88 => { let md = bc_envelope::SignatureMetadata::new().with_assertion(known_values::NOTE, "m"); let _ = e.add_signature_opt(&sk.private, sk.options(), Some(md.clone())); let _ = e.add_signatures_opt(&[(&sk.private as &dyn bc_components::Signer, sk.options(), Some(md)), (&pool.sig[0].private as &dyn bc_components::Signer, None, None)]); "add_signature(metadata)" }
        89 => { let _ = e.sign_opt(&sk.private, sk.options()); "sign" }
        90 => { let d = *e.subject().digest().data(); let sig = bc_components::Signer::sign_with_options(&sk.private, &d.as_slice(), sk.options()).unwrap(); let _ = e.is_verified_signature(&sig, &sk.public); let _ = e.verify_signature(&sig, &pool.sig[0].public).is_ok(); let _ = e.make_signed_assertion(&sig, if src.bool() { Some("note") } else { None }); "is_verified_signature" }
        91 => { let _ = e.recipients().is_ok(); "recipients" }
        92 => { let _ = e.decrypt_subject_to_recipient(&ek.private).is_ok(); "decrypt_subject_to_recipient" }
        93 => { let _ = e.decrypt_to_recipient(&ek.private).is_ok(); "decrypt_to_recipient" }
        94 => { let _ = e.add_recipient(&ek.public, &key); let n = bc_components::Nonce::from_data_ref([3u8; 12]).unwrap(); let _ = e.add_recipient_opt(&ek.public, &key, Some(&n)); let _ = e.encrypt_subject_to_recipient_opt(&ek.public, Some(&n)).is_ok(); let r: Vec<&dyn bc_components::Encrypter> = vec![&ek.public, &pool.enc[1].public]; let _ = e.encrypt_subject_to_recipients_opt(&r, Some(&n)).is_ok(); "add_recipient" }
        95 => { let _ = e.encrypt_subject_to_recipient(&ek.public).is_ok(); let r: Vec<&dyn bc_components::Encrypter> = vec![&ek.public, &pool.enc[0].public]; let _ = e.encrypt_subject_to_recipients(&r).is_ok(); "encrypt_subject_to_recipient(s)" }
        96 => { let _ = e.encrypt_to_recipient(&ek.public); "encrypt_to_recipient" }
        97 => { let _ = e.unseal(&sk.public, &ek.private).is_ok(); "unseal" }
        98 => { let _ = e.seal_opt(&sk.private, &ek.public, sk.options()); "seal" }
        99 => { let _ = Envelope::sskr_join(&[e]).is_ok(); let _ = Envelope::sskr_join(&[e, &a_child]).is_ok(); "sskr_join" }
        100 => { let spec = SSKRSpec::new(1, vec![SSKRGroupSpec::new(1 + src.below(2), 2).unwrap()]).unwrap(); let _ = e.sskr_split(&spec, &key).map(|s| { let flat: Vec<Envelope> = s.into_iter().flatten().collect(); let refs: Vec<&Envelope> = flat.iter().collect(); let _ = Envelope::sskr_join(&refs).is_ok(); }); let _ = e.sskr_split_flattened(&spec, &key).is_ok(); let mut r = bc_rand::SeededRandomNumberGenerator::new([5, 6, 7, 8]); let _ = e.sskr_split_using(&spec, &key, &mut r).is_ok(); "sskr_split" }
        // ---- types / attachments
        101 => { let _ = e.types(); "types" }
        102 => { let _ = e.get_type().is_ok(); "get_type" }
        103 => { let _ = (e.has_type(&known_values::SEED_TYPE), e.has_type_envelope("T"), e.check_type(&known_values::SEED_TYPE).is_ok(), e.check_type_envelope("T").is_ok()); "has_type/check_type" }
        104 => { let _ = e.attachments().is_ok(); "attachments" }
        105 => { let v = if src.bool() { Some("com.example") } else { None }; let c = if src.bool() { Some("v1") } else { None }; let _ = e.attachments_with_vendor_and_conforms_to(v, c).is_ok(); let _ = e.attachment_with_vendor_and_conforms_to(v, c).is_ok(); "attachments_with_vendor_and_conforms_to" }
        106 => { let _ = (e.attachment_payload().is_ok(), e.attachment_vendor().is_ok(), e.attachment_conforms_to().is_ok(), e.validate_attachment().is_ok()); let _ = (a_child.attachment_payload().is_ok(), a_child.attachment_vendor().is_ok(), a_child.attachment_conforms_to().is_ok(), a_child.validate_attachment().is_ok()); "attachment_payload/vendor/conforms_to/validate" }
        107 => { let _ = Attachments::try_from_envelope(e).map(|a| a.add_to_envelope(Envelope::new("x"))).is_ok(); let _ = Attachments::try_from_envelope(e).map(|mut a| { let x = a.add_to_envelope(e.clone()); a.add(e.clone(), "v", Some("c")); a.add(a_child.clone(), "", None::<&str>); let y = a.add_to_envelope(x); let _ = a.get(&e.digest().into_owned()); let _ = a.remove(&a_child.digest().into_owned()); let _ = a.is_empty(); a.clear(); y }).is_ok(); let _ = Envelope::new_attachment(e.clone(), "v", None).validate_attachment().is_ok(); "Attachments::try_from_envelope" }
        // ---- parse
        108 => { let _ = Expression::try_from(e.clone()).is_ok(); let f = Function::from(1u64); let _ = Expression::try_from((e.clone(), Some(&f))).is_ok(); "Expression::try_from" }
        109 => { let _ = Request::try_from(e.clone()).map(|r| (r.summary(), r.to_string())).is_ok(); let f = Function::from(1u64); let _ = Request::try_from((e.clone(), Some(&f))).is_ok(); "Request::try_from" }
        110 => { let _ = Response::try_from(e.clone()).map(|r| (r.summary(), r.to_string())).is_ok(); "Response::try_from" }
        111 => { let _ = Event::<String>::try_from(e.clone()).map(|r| r.summary()).is_ok(); let _ = Event::<Envelope>::try_from(e.clone()).map(|r| r.summary()).is_ok(); let _ = Event::<Expression>::try_from(e.clone()).is_ok(); "Event::try_from" }
        112 => { let _ = Function::try_from(e.clone()).is_ok(); let _ = KnownValue::try_from(e.tagged_cbor()).is_ok(); "Function::try_from" }
        113 => { let _ = e.proof_contains_set(&hs).map(|p| e.confirm_contains_set(&hs, &p)); "proof_contains_set" }
        114 => { let _ = e.proof_contains_target(&a_child).map(|p| (e.confirm_contains_target(&a_child, &p), e.elide().confirm_contains_target(&a_child, &p))); "proof_contains_target" }
        115 => { let _ = e.confirm_contains_set(&hs, &a_child); let _ = a_child.confirm_contains_set(&hs, e); "confirm_contains_set(foreign)" }
        116 => { let _ = Envelope::try_from_cbor_data(e.to_cbor_data()).is_ok(); let _ = Envelope::try_from_cbor(e.tagged_cbor()).is_ok(); let _ = Envelope::try_from_cbor(e.untagged_cbor()).is_ok(); let _ = Envelope::from_untagged_cbor(e.untagged_cbor()).is_ok(); "try_from_cbor" }
        117 => { let _ = Envelope::from_ur_string(&e.ur_string()).is_ok(); "from_ur_string" }
        118 => { let _ = Envelope::new(e.tagged_cbor()); let _ = Envelope::new_or_null(Some(e.clone())); let _ = Envelope::new_or_none(Some(e.clone())); let _ = Envelope::new_assertion(e.clone(), a_child.clone()); "new(envelope-as-leaf)" }
        _ => { let _ = e.extract_subject::<Function>().is_ok(); let _ = e.extract_subject::<bc_envelope::Parameter>().is_ok(); let _ = e.extract_subject::<bc_components::PublicKeys>().is_ok(); let _ = e.extract_subject::<bc_components::Salt>().is_ok(); let _ = dig; "extract_subject<more>" }
    }
}

const PURE_GETTERS: usize = 33;

pub fn run(data: &[u8], ctx: &mut Ctx) -> Outcome {
    let mut src = Src::new(data);
    // ---- input envelope
    let stream = src.weighted(&[30, 20, 20, 30]);
    let e: Envelope = match stream {
        0 | 3 => {
            let mut cfg = GenCfg::new(4, 24);
            let spec = gen::gen_spec(&mut src, &mut cfg);
            let e = match guard(|| build_a(&spec, &mut src)) {
                Ok(e) => e,
                Err(p) => return fail(ctx, "build", &format!("C16/build/panic@{}", panic_site(&p)), p),
            };
            if stream == 3 {
                ctx.class("input:decorated");
                match guard(|| decorate(e.clone(), &mut src, ctx)) {
                    Ok(d) => d,
                    Err(p) => return fail(ctx, "decorate", &format!("C16/decorate/panic@{}", panic_site(&p)), p),
                }
            } else {
                ctx.class("input:built");
                e
            }
        }
        1 => {
            ctx.class("input:decoded-valid");
            let mut cfg = GenCfg::new(4, 24);
            let spec = gen::gen_spec(&mut src, &mut cfg);
            let m = spec_model(&spec);
            match guard(|| build_b(&m)) {
                Ok(Ok(e)) => e,
                Ok(Err(s)) => return fail(ctx, "build", "C16/build/rejected", s),
                Err(p) => return fail(ctx, "build", &format!("C16/build/panic@{}", panic_site(&p)), p),
            }
        }
        _ => {
            ctx.class("input:decoded-mutant");
            let (bytes, _) = c06::gen_input(&mut src, ctx);
            if let Ok(p) = cbor::parse(&bytes) {
                if p.max_depth > c06::MAX_NESTING {
                    return Outcome::Reject;
                }
            }
            match guard(|| Envelope::try_from_cbor_data(bytes.clone())) {
                Ok(Ok(e)) => e,
                Ok(Err(_)) => {
                    ctx.class("input:mutant-rejected");
                    return Outcome::Pass;
                }
                Err(p) => return fail(ctx, "decode", &format!("C16/decode/panic@{}", panic_site(&p)), p),
            }
        }
    };
    let m = tryp!(ctx, bridge::read_out(&e), "readout", "C16/readout");
    ctx.fingerprint(&e.to_cbor_data());
    let decorated_or_obscured = stream == 3 || m.count_obscured() > 0 || m.elements().iter().any(|x| matches!(x, M::Node(s, _) if matches!(**s, M::Assertion(..))));
    if m.count_obscured() > 0 {
        ctx.class("input:has-obscured");
    }
    ctx.sample_with(|| m.show());
    // ---- operations: on the root and on generated sub-elements
    let n_ops = 6 + src.below(9);
    let mut non_getter = false;
    for _ in 0..n_ops {
        let i = src.below(N_OPS);
        ctx.fingerprint(&[i as u8]);
        let target = match src.below(4) {
            0 => {
                let a = e.assertions();
                if a.is_empty() { e.clone() } else { a[src.below(a.len())].clone() }
            }
            1 => {
                // any element of the envelope (predicate, object, wrapped interior, obscured element ...)
                let els = all_elements(&e);
                els[src.below(els.len())].clone()
            }
            _ => e.clone(),
        };
        let mut name = "";
        let r = guard(|| {
            name = run_op(i, &target, &mut src);
        });
        if let Err(p) = r {
            // one dependency defect is reachable from every formatting entry point: key it once
            let key = if panic_site(&p) == "date.rs" { "C16/dependency/dcbor-date-out-of-range".to_string() } else { format!("C16/op{}/panic@{}", i, panic_site(&p)) };
            return fail(ctx, &format!("op{}", i), &key, format!("panic in operation #{} on {}: {}", i, bridge::read_out(&target).map(|x| x.show()).unwrap_or_default(), p));
        }
        ctx.class(&format!("op:{:03}:{}", i, name));
        if i >= PURE_GETTERS {
            non_getter = true;
        }
    }
    let _ = (to_hashset, apply_elide, Obs::Elide, SymmetricKey::new);
    ctx.nontrivial = decorated_or_obscured && non_getter;
    Outcome::Pass
}

fn all_elements(e: &Envelope) -> Vec<Envelope> {
    let out: std::cell::RefCell<Vec<Envelope>> = std::cell::RefCell::new(Vec::new());
    let visitor = |env: Envelope, _l: usize, _e: EdgeType, _p: Option<()>| -> Option<()> {
        out.borrow_mut().push(env);
        None
    };
    e.walk(false, &visitor);
    out.into_inner()
}

fn fail(ctx: &mut Ctx, sub: &str, key: &str, msg: String) -> Outcome {
    match ctx.fail(sub, key, msg) {
        Some(f) => Outcome::Fail(f),
        None => Outcome::Pass,
    }
}
