//! C01 — digest tree of every envelope matches the specification.

use crate::bridge::{self, agree, build_a, build_b, check_bytes, check_digests, d32, spec_model};
use crate::engine::{Ctx, Outcome, Prop};
use crate::gen::{self, GenCfg, LeafSpec, Spec};
use crate::model::M;
use crate::ops::{self, gen_op};
use crate::src::Src;
use crate::{check, nopanic, tryp};
use bc_components::DigestProvider;

pub fn prop() -> Prop {
    Prop {
        id: "C01",
        run,
        max_len: 700,
        quick: 100_000,
        thorough: 1_500_000,
        rule: "choice sequence -> envelope spec (depth<=6, <=7 assertions/node, all leaf types, known values, wrapped, assertion-on-assertion, node-as-subject, elided/encrypted/compressed parts) built along route A twice (constructors/mutators, two insertion orders and API mixes) and route B (harness encoder -> library decoder), then 0-6 history steps; oracle = digests recomputed bottom-up by the harness (own SHA-256 + dCBOR) from the structure read through case(), at every position, plus bytes re-parsed by the harness parser, plus route independence. non-trivial: tree has >=1 node and >=3 elements; distinct by FNV-64 of the spec encoding + op list; histories also contain add-bulk-with-repeats (array forms naming an assertion twice), replace-by-equal (same-digest renditions), import-obscured and import-and-open-noncanonical, add-subject-as-assertion, replace-subject-sharing-an-assertion",
        assumptions: &[
            "sha2 crate implements SHA-256",
            "bc-components ChaCha20-Poly1305 / deflate used only to build and open ciphertext/compressed blobs",
            "nesting depth of generated envelopes <= 8",
        ],
        extra: None,
    }
}

pub fn classify(m: &M, ctx: &mut Ctx) {
    let els = m.elements();
    let mut node_subj_node = false;
    let mut known_pred = false;
    let mut assertion_with_assertions = false;
    let mut many = false;
    let mut obscured = 0;
    for e in &els {
        match e {
            M::Node(s, a) => {
                if matches!(**s, M::Node(..)) {
                    node_subj_node = true;
                }
                if matches!(**s, M::Assertion(..)) {
                    assertion_with_assertions = true;
                }
                if a.len() >= 3 {
                    many = true;
                }
            }
            M::Assertion(p, _) => {
                if matches!(**p, M::Known(_)) {
                    known_pred = true;
                }
            }
            x if x.is_obscured() => obscured += 1,
            _ => {}
        }
    }
    if node_subj_node {
        ctx.class("node-subject-is-node");
    }
    if known_pred {
        ctx.class("known-value-predicate");
    }
    if assertion_with_assertions {
        ctx.class("assertion-with-assertions");
    }
    if many {
        ctx.class(">=3-assertions");
    }
    if obscured > 0 {
        ctx.class("obscured>=1");
    }
    if matches!(m.subject(), M::Known(_)) {
        ctx.class("known-value-subject");
    }
    if matches!(m, M::Wrapped(_)) || matches!(m.subject(), M::Wrapped(_)) {
        ctx.class("wrapped-subject");
    }
}

pub fn leaf_types(s: &Spec, ctx: &mut Ctx) {
    match s {
        Spec::Leaf(l) => {
            ctx.class(&format!("leaf:{}", l.type_name()));
            if let LeafSpec::Embedded(i) = l {
                leaf_types(i, ctx);
            }
        }
        Spec::Known(_) => {}
        Spec::Assertion(p, o) => {
            leaf_types(p, ctx);
            leaf_types(o, ctx);
        }
        Spec::Node(sub, a) => {
            leaf_types(sub, ctx);
            for x in a {
                leaf_types(x, ctx);
            }
        }
        Spec::Wrapped(i) => leaf_types(i, ctx),
        Spec::Obscured(_, _, i) => leaf_types(i, ctx),
    }
}

pub fn run(data: &[u8], ctx: &mut Ctx) -> Outcome {
    let mut src = Src::new(data);
    let mut cfg = GenCfg::new(6, 60);
    let mut spec = gen::gen_spec(&mut src, &mut cfg);
    if src.chance(12) {
        // deep class: 8-20 further levels of wrapping (each optionally with an assertion)
        let levels = 8 + src.below(13);
        for i in 0..levels {
            spec = Spec::Wrapped(Box::new(spec));
            if src.chance(64) {
                spec = Spec::Node(Box::new(spec), vec![Spec::Assertion(Box::new(Spec::Leaf(LeafSpec::Str("level".into()))), Box::new(Spec::Leaf(LeafSpec::U8(i as u8))))]);
            }
        }
        ctx.class("deep-nesting(>=8 more levels)");
    }
    let model = spec_model(&spec);
    let root = model.digest();
    classify(&model, ctx);
    leaf_types(&spec, ctx);
    ctx.fingerprint(&model.tagged());
    ctx.sample_with(|| model.show());

    // --- construction along three routes
    let ea = nopanic!(ctx, build_a(&spec, &mut src), "build-A", "C01/build-A");
    let ea2 = nopanic!(ctx, build_a(&spec, &mut src), "build-A", "C01/build-A");
    let eb = nopanic!(ctx, build_b(&model), "build-B", "C01/build-B");
    let eb = tryp!(ctx, eb, "build-B", "C01/build-B/rejected");
    for (name, e) in [("A", &ea), ("A2", &ea2), ("B", &eb)] {
        let sub = format!("route-{}", name);
        let lm = nopanic!(ctx, check_digests(e), &sub, "C01/digest");
        let lm = tryp!(ctx, lm, &sub, "C01/digest");
        tryp!(ctx, agree(&lm, &model).map_err(|s| format!("route {} vs generated model: {}", name, s)), &sub, "C01/route");
        let r = nopanic!(ctx, check_bytes(e, &lm), &sub, "C01/bytes");
        tryp!(ctx, r, &sub, "C01/bytes");
        check!(ctx, d32(&e.digest()) == root, &sub, "C01/route", "root digest of route {} differs from the specification digest", name);
    }
    ctx.class("route-A");
    ctx.class("route-B");

    // --- a decoded / hand-assembled envelope whose encrypted subject declares a digest its content does
    // not have: decrypt_subject must refuse it, or at least never hand out an envelope whose reported
    // digests disagree with its own structure
    if src.chance(48) {
        let key = bridge::case_key();
        let other = bc_envelope::Envelope::new(format!("forged content {}", src.below(1000)));
        let subj_digest = ea.subject().digest().into_owned();
        if other.digest().as_ref() != &subj_digest && !ea.subject().is_obscured() {
            use dcbor::prelude::*;
            let msg = key.encrypt_with_digest(other.tagged_cbor().to_cbor_data(), subj_digest, None::<bc_components::Nonce>);
            if let Ok(forged_subject) = bc_envelope::Envelope::try_from(msg) {
                let forged = nopanic!(ctx, ea.replace_subject(forged_subject), "forged-subject", "C01/forged-subject");
                check!(ctx, forged.digest() == ea.digest(), "forged-subject", "C01/forged-subject", "a node with a digest-declaring encrypted subject has another digest than the original");
                let r = nopanic!(ctx, forged.decrypt_subject(&key), "forged-subject", "C01/forged-subject");
                if let Ok(r) = r {
                    let lm = nopanic!(ctx, check_digests(&r), "forged-subject", "C01/forged-subject");
                    tryp!(ctx, lm.map_err(|s| format!("decrypt_subject of a subject whose content does not match its declared digest returned an envelope whose digests disagree with its structure: {}", s)), "forged-subject", "C01/forged-subject");
                }
                ctx.class("forged-encrypted-subject");
            }
        }
    }

    // --- history tail
    let steps = src.below(7);
    let e = if src.bool() { ea } else { eb };
    let m = tryp!(ctx, bridge::read_out(&e), "readout", "C01/readout");
    let mut stats = HistStats::default();
    match run_history(ctx, &mut src, e, m, steps, "C01", &mut stats) {
        Outcome::Pass => {}
        other => return other,
    }
    ctx.nontrivial = model.elements_count() >= 3 && model.elements().iter().any(|x| matches!(x, M::Node(..)));
    Outcome::Pass
}

#[derive(Default)]
pub struct HistStats {
    pub effective: usize,
    pub remove_last: bool,
    pub add_duplicate: bool,
    pub replace_subject_by_node: bool,
    pub obscure_then_add: bool,
    pub obscured_before: bool,
    pub ops: Vec<String>,
}

/// Apply `steps` generated operations, checking after each one: library digests == harness
/// recomputation at every position, strictly ascending unique assertion order, emitted bytes are
/// strict dCBOR matching the envelope grammar and the harness encoding, documented effect,
/// digest neutrality.
pub fn run_history(ctx: &mut Ctx, src: &mut Src, e0: bc_envelope::Envelope, m0: M, steps: usize, id: &str, stats: &mut HistStats) -> Outcome {
    let mut e = e0;
    let mut m = m0;
    for _ in 0..steps {
        let op = gen_op(src, &m);
        ctx.fingerprint(op.name().as_bytes());
        let key = format!("{}/step/{}", id, op.name());
        let sub = format!("step:{}", op.name());
        let applied = nopanic!(ctx, ops::apply(&e, &m, &op), &sub, &key);
        match &applied.result {
            Ok(e2) => {
                let lm = nopanic!(ctx, check_digests(e2), &sub, &key);
                let lm = tryp!(ctx, lm.map_err(|s| format!("after {} on {}: {}", op.show(), m.show(), s)), &sub, &key);
                let r = nopanic!(ctx, check_bytes(e2, &lm), &sub, &key);
                tryp!(ctx, r.map_err(|s| format!("after {} on {}: {}", op.show(), m.show(), s)), &sub, &key);
                tryp!(ctx, ops::judge(&m, &applied, Some(&lm)).map_err(|s| format!("{} on {}: {}", op.show(), m.show(), s)), &sub, &key);
                if op.digest_neutral() {
                    check!(ctx, lm.digest() == m.digest(), &sub, &key, "{} changed the root digest of {}", op.show(), m.show());
                }
                ctx.class(&format!("op:{}", op.name()));
                stats.effective += 1;
                match &op {
                    ops::Op::Remove(_) if m.assertions().len() == 1 => stats.remove_last = true,
                    ops::Op::AddDup(_) | ops::Op::AddDupObscured(..) => stats.add_duplicate = true,
                    ops::Op::ReplaceSubject(s) if matches!(s, Spec::Node(..)) => stats.replace_subject_by_node = true,
                    ops::Op::Add(_) | ops::Op::AddType(_) | ops::Op::AddSalt if stats.obscured_before => stats.obscure_then_add = true,
                    _ => {}
                }
                if lm.count_obscured() > 0 {
                    stats.obscured_before = true;
                }
                stats.ops.push(op.show());
                e = e2.clone();
                m = lm;
            }
            Err(_) => {
                tryp!(ctx, ops::judge(&m, &applied, None).map_err(|s| format!("{} on {}: {}", op.show(), m.show(), s)), &sub, &key);
                ctx.class(&format!("op-refused:{}", op.name()));
            }
        }
    }
    Outcome::Pass
}
