//! C10 — every recipient, and only a recipient, can open a public-key encrypted envelope.

use crate::bridge::{self, build_a, check_digests, spec_model};
use crate::engine::{Ctx, Outcome, Prop};
use crate::gen::{self, GenCfg};
use crate::keys;
use crate::model::M;
use crate::src::Src;
use crate::{check, nopanic, tryp};
use bc_components::{DigestProvider, Encrypter, SymmetricKey};
use bc_envelope::prelude::*;

pub fn prop() -> Prop {
    Prop {
        id: "C10",
        run,
        max_len: 400,
        quick: 40_000,
        thorough: 400_000,
        rule: "choice sequence -> envelope x recipient list of 1-5 keys from a pool of 10 (4 X25519, 2 each ML-KEM-512/768/1024; duplicates allowed, mixed schemes) x every listed and 2-3 unlisted private keys; encrypt_subject_to_recipients, encrypt_subject_to_recipient, encrypt_to_recipient/decrypt_to_recipient, a later add_recipient with the content key, manual encrypt_subject+add_recipient, seal/unseal over generated sender-scheme x recipient-scheme pairs with right/wrong sender and right/wrong recipient. oracle: the encrypted envelope keeps the specification digest of the original subject and all original assertions plus one 'hasRecipient' assertion per distinct sealing; each listed key decrypts to a subject identical to the original (bytes) with the original assertions still present; each unlisted key gets Err; wrapped form and unseal return an envelope byte-identical to the original; earlier recipients still decrypt after add_recipient; wrong sender / wrong recipient give Err. non-trivial: >=2 recipients or a seal case; distinct by FNV-64 of (encoding, recipient indices); the recipient assertions as later holders leave them: one 'hasRecipient' assertion salted / annotated, the predicate obscured everywhere, one sealed message or its assertion obscured - every recipient whose sealed message is still readable opens to the original subject, at most one distinct recipient is locked out; an annotated sealed message; encryption through the *_opt routes chosen by the recipient list; annotated and redacted sealed message ('hasRecipient': ELIDED ['note': ..]) locks out at most its own recipient; a junk sealed message added for a listed recipient locks nobody out",
        assumptions: &["X25519 / ML-KEM / ChaCha20-Poly1305 are secure: an unlisted key cannot decrypt by chance", "ML-KEM keys are not seedable and differ per run"],
        extra: None,
    }
}

pub fn run(data: &[u8], ctx: &mut Ctx) -> Outcome {
    let mut src = Src::new(data);
    let pool = keys::full_pool();
    let mut cfg = GenCfg::new(3, 14);
    let spec = gen::gen_spec(&mut src, &mut cfg);
    let model = spec_model(&spec);
    ctx.fingerprint(&model.tagged());
    let e = nopanic!(ctx, build_a(&spec, &mut src), "build", "C10/build");
    let m = tryp!(ctx, bridge::read_out(&e), "readout", "C10/readout");
    let orig_bytes = e.to_cbor_data();
    let subject_bytes = e.subject().to_cbor_data();
    // a generated envelope may already carry 'hasRecipient' assertions with arbitrary objects: then
    // recipients() legitimately reports an error; keep such inputs for the no-panic part only
    let bogus_recipient = m.assertions().iter().any(|a| matches!(a.subject(), M::Assertion(p, _) if p.digest() == M::Known(5).digest()));

    let n = 1 + src.weighted(&[35, 30, 20, 10, 5]);
    let listed: Vec<usize> = (0..n).map(|_| src.below(pool.enc.len())).collect();
    for i in &listed {
        ctx.class(&format!("scheme:{}", pool.enc[*i].scheme));
        ctx.fingerprint(&[*i as u8]);
    }
    let distinct: std::collections::BTreeSet<usize> = listed.iter().cloned().collect();
    if distinct.len() < listed.len() {
        ctx.class("duplicate-recipient");
    }
    ctx.sample_with(|| format!("{} to recipients {:?}", model.show(), listed.iter().map(|i| format!("{}#{}", pool.enc[*i].scheme, i)).collect::<Vec<_>>()));
    let recips: Vec<&dyn Encrypter> = listed.iter().map(|i| &pool.enc[*i].public as &dyn Encrypter).collect();

    let subject_encryptable = !matches!(m.subject(), M::Encrypted(..) | M::Elided(_));
    // the *_opt variants (fixed test nonce) are the same operations; which route is taken is a function
    // of the recipient list, so no further choice is drawn
    let test_nonce = bc_components::Nonce::from_data_ref([0x5a; 12]).unwrap();
    let route = listed.iter().sum::<usize>() % 3;
    ctx.class(["route:encrypt_subject_to_recipients", "route:encrypt_subject_to_recipients_opt", "route:encrypt_subject+add_recipient_opt"][route]);
    let enc = nopanic!(
        ctx,
        match route {
            0 => e.encrypt_subject_to_recipients(&recips),
            1 => e.encrypt_subject_to_recipients_opt(&recips, Some(&test_nonce)),
            _ => {
                let ck = SymmetricKey::new();
                e.encrypt_subject(&ck).map(|mut x| {
                    for r in &recips {
                        x = x.add_recipient_opt(*r, &ck, Some(&test_nonce));
                    }
                    x
                })
            }
        },
        "encrypt",
        "C10/encrypt"
    );
    if !subject_encryptable {
        if matches!(m.subject(), M::Encrypted(..)) {
            check!(ctx, enc.is_err(), "encrypt", "C10/encrypt", "encrypt_subject_to_recipients accepted an already encrypted subject");
        }
        ctx.class("subject-not-encryptable");
    } else {
        let enc = tryp!(ctx, enc.map_err(|x| format!("encrypt_subject_to_recipients failed on {}: {}", m.show(), x)), "encrypt", "C10/encrypt");
        let em = nopanic!(ctx, check_digests(&enc), "encrypt", "C10/encrypt");
        let em = tryp!(ctx, em, "encrypt", "C10/encrypt");
        check!(ctx, matches!(em.subject(), M::Encrypted(..)), "encrypt", "C10/encrypt", "subject is not encrypted");
        check!(ctx, em.subject().digest() == m.subject().digest(), "encrypt", "C10/encrypt/digest", "encrypted subject does not keep the original subject's digest");
        // all original assertions still there, plus one hasRecipient per sealing
        let orig: std::collections::BTreeSet<_> = m.assertions().iter().map(|a| a.digest()).collect();
        let now: std::collections::BTreeSet<_> = em.assertions().iter().map(|a| a.digest()).collect();
        check!(ctx, orig.is_subset(&now), "encrypt", "C10/encrypt", "an original assertion disappeared");
        let added: Vec<&M> = em.assertions().iter().filter(|a| !orig.contains(&a.digest())).collect();
        check!(ctx, added.len() == listed.len(), "encrypt", "C10/encrypt", "{} recipients but {} new assertions", listed.len(), added.len());
        for a in &added {
            check!(ctx, matches!(a, M::Assertion(p, _) if **p == M::Known(5)), "encrypt", "C10/encrypt", "new assertion is not 'hasRecipient'");
        }
        if !bogus_recipient {
            for i in 0..pool.enc.len() {
                let is_listed = distinct.contains(&i);
                if !is_listed && src.chance(160) {
                    continue; // a sample of the unlisted keys
                }
                let r = nopanic!(ctx, enc.decrypt_subject_to_recipient(&pool.enc[i].private), "decrypt", "C10/decrypt");
                if is_listed {
                    let d = tryp!(ctx, r.map_err(|x| format!("listed recipient {}#{} cannot decrypt {}: {}", pool.enc[i].scheme, i, m.show(), x)), "decrypt", "C10/decrypt/listed-fails");
                    check!(ctx, d.subject().to_cbor_data() == subject_bytes, "decrypt", "C10/decrypt/subject", "decrypted subject differs from the original subject");
                    check!(ctx, d.subject().is_identical_to(&e.subject()), "decrypt", "C10/decrypt/subject", "decrypted subject is not identical");
                    let dm = tryp!(ctx, bridge::read_out(&d), "readout", "C10/readout");
                    let dn: std::collections::BTreeSet<_> = dm.assertions().iter().map(|a| a.digest()).collect();
                    check!(ctx, orig.is_subset(&dn) && dn == now, "decrypt", "C10/decrypt/assertions", "assertions changed by decryption");
                    check!(ctx, dm.digest() == em.digest(), "decrypt", "C10/decrypt/digest", "digest changed by decryption");
                } else {
                    check!(ctx, r.is_err(), "decrypt", "C10/decrypt/unlisted-succeeds", "unlisted key {}#{} decrypted the envelope", pool.enc[i].scheme, i);
                }
            }
            // a later recipient, added by someone holding the content key: here by a listed recipient
            // who recovers the key material the documented way (decrypt + re-add is not public), so use
            // the manual flow: encrypt_subject with a known key, add recipients one by one.
            let ck = SymmetricKey::from_data_ref(src.bytes(32)).unwrap();
            let manual = nopanic!(ctx, e.encrypt_subject(&ck), "add-recipient", "C10/add-recipient");
            let mut manual = tryp!(ctx, manual.map_err(|x| x.to_string()), "add-recipient", "C10/add-recipient");
            let first = listed[0];
            manual = nopanic!(ctx, manual.add_recipient(&pool.enc[first].public, &ck), "add-recipient", "C10/add-recipient");
            let later = (first + 1 + src.below(pool.enc.len() - 1)) % pool.enc.len();
            let manual2 = nopanic!(ctx, manual.add_recipient(&pool.enc[later].public, &ck), "add-recipient", "C10/add-recipient");
            for (who, env, must) in [(first, &manual, true), (later, &manual, false), (first, &manual2, true), (later, &manual2, true)] {
                let r = nopanic!(ctx, env.decrypt_subject_to_recipient(&pool.enc[who].private), "add-recipient", "C10/add-recipient");
                if must {
                    let d = tryp!(ctx, r.map_err(|x| format!("recipient {} cannot decrypt after add_recipient: {}", who, x)), "add-recipient", "C10/add-recipient/earlier-fails");
                    check!(ctx, d.subject().to_cbor_data() == subject_bytes, "add-recipient", "C10/add-recipient", "decrypted subject differs");
                } else {
                    check!(ctx, r.is_err(), "add-recipient", "C10/add-recipient", "a key that was not yet added decrypted the envelope");
                }
            }
            check!(ctx, manual2.subject().digest() == e.subject().digest(), "add-recipient", "C10/add-recipient", "subject digest changed");
            ctx.class("add-recipient");
        }
    }

    if bogus_recipient {
        ctx.class("base-has-bogus-hasRecipient");
        return Outcome::Pass;
    }

    // --- an envelope that still carries a (valid) 'hasRecipient' assertion from an EARLIER encryption to
    // the same recipient — what decrypt_subject_to_recipient hands back keeps those assertions — is
    // encrypted to that recipient again: the listed recipient must still be able to open it
    if subject_encryptable && src.chance(64) {
        let r = listed[0];
        let stale_key = SymmetricKey::from_data_ref(src.bytes(32)).unwrap();
        let n_stale = 1 + src.below(2);
        let mut with_stale = e.clone();
        for _ in 0..n_stale {
            with_stale = nopanic!(ctx, with_stale.add_recipient(&pool.enc[r].public, &stale_key), "stale", "C10/stale-recipient");
        }
        let again = nopanic!(ctx, with_stale.encrypt_subject_to_recipient(&pool.enc[r].public), "stale", "C10/stale-recipient");
        let again = tryp!(ctx, again.map_err(|x| x.to_string()), "stale", "C10/stale-recipient");
        let d = nopanic!(ctx, again.decrypt_subject_to_recipient(&pool.enc[r].private), "stale", "C10/stale-recipient");
        let d = tryp!(ctx, d.map_err(|x| format!("a listed recipient cannot open an envelope that also carries {} 'hasRecipient' assertion(s) from an earlier encryption to the same key: {}", n_stale, x)), "stale", "C10/stale-recipient/listed-fails");
        check!(ctx, d.subject().to_cbor_data() == subject_bytes, "stale", "C10/stale-recipient", "decrypted subject differs from the original subject");
        ctx.class("stale-hasRecipient");
    }

    // --- single-recipient and wrapped forms
    let r0 = listed[0];
    let outsider = (0..pool.enc.len()).find(|i| !distinct.contains(i)).unwrap_or((r0 + 1) % pool.enc.len());
    if subject_encryptable {
        let one = nopanic!(ctx, e.encrypt_subject_to_recipient(&pool.enc[r0].public), "single", "C10/single");
        let one = tryp!(ctx, one.map_err(|x| x.to_string()), "single", "C10/single");
        let d = nopanic!(ctx, one.decrypt_subject_to_recipient(&pool.enc[r0].private), "single", "C10/single");
        let d = tryp!(ctx, d.map_err(|x| x.to_string()), "single", "C10/single");
        check!(ctx, d.subject().to_cbor_data() == subject_bytes, "single", "C10/single", "single-recipient round trip differs");
    }
    let w = nopanic!(ctx, e.encrypt_to_recipient(&pool.enc[r0].public), "wrapped", "C10/wrapped");
    let wm = tryp!(ctx, bridge::read_out(&w), "readout", "C10/readout");
    check!(ctx, wm.subject().digest() == M::wrapped(m.clone()).digest(), "wrapped", "C10/wrapped/digest", "encrypt_to_recipient: subject digest is not the wrapped original's");
    let wd = nopanic!(ctx, w.decrypt_to_recipient(&pool.enc[r0].private), "wrapped", "C10/wrapped");
    let wd = tryp!(ctx, wd.map_err(|x| format!("decrypt_to_recipient failed: {}", x)), "wrapped", "C10/wrapped");
    check!(ctx, wd.to_cbor_data() == orig_bytes && wd.is_identical_to(&e), "wrapped", "C10/wrapped/identical", "decrypt_to_recipient(encrypt_to_recipient(e)) is not identical to e = {}", m.show());
    if outsider != r0 {
        let bad = nopanic!(ctx, w.decrypt_to_recipient(&pool.enc[outsider].private), "wrapped", "C10/wrapped");
        check!(ctx, bad.is_err(), "wrapped", "C10/wrapped/unlisted-succeeds", "an unlisted key opened the wrapped form");
    }

    // --- seal / unseal
    if src.chance(128) {
        let spool = keys::full_pool();
        let si = src.below(spool.sig.len());
        let sender = &spool.sig[si];
        let wrong_sender = &spool.sig[(si + 1 + src.below(spool.sig.len() - 1)) % spool.sig.len()];
        ctx.class(&format!("seal:{}x{}", sender.scheme, pool.enc[r0].scheme));
        let sealed = nopanic!(ctx, e.seal_opt(&sender.private, &pool.enc[r0].public, sender.options()), "seal", "C10/seal");
        let u = nopanic!(ctx, sealed.unseal(&sender.public, &pool.enc[r0].private), "seal", "C10/seal");
        match u {
            Ok(u) => {
                check!(ctx, u.to_cbor_data() == orig_bytes && u.is_identical_to(&e), "seal", "C10/seal/identical", "unseal(seal(e)) is not identical to e = {}", m.show());
            }
            Err(x) => {
                // SSH-ECDSA signature encoding defect of the dependency (see C09): ~1% of signatures
                let is_ssh_ecdsa = sender.scheme.starts_with("SSH-ECDSA");
                let key = if is_ssh_ecdsa { "C10/dependency/ssh-ecdsa-signature-unreadable" } else { "C10/seal/fails" };
                check!(ctx, false, "seal", key, "unseal with the right sender and recipient failed ({} x {}): {}", sender.scheme, pool.enc[r0].scheme, x);
            }
        }
        let ws = nopanic!(ctx, sealed.unseal(&wrong_sender.public, &pool.enc[r0].private), "seal", "C10/seal");
        check!(ctx, ws.is_err(), "seal", "C10/seal/wrong-sender", "unseal succeeded with a wrong sender key");
        if outsider != r0 {
            let wr = nopanic!(ctx, sealed.unseal(&sender.public, &pool.enc[outsider].private), "seal", "C10/seal");
            check!(ctx, wr.is_err(), "seal", "C10/seal/wrong-recipient", "unseal succeeded with a wrong recipient key");
        }
        ctx.nontrivial = true;
    }
    // --- drawn last: the recipient assertions as later holders may leave them. With the subject encrypted
    // to the listed recipients, (a) one 'hasRecipient' assertion gets a salt or a note of its own,
    // (b) the predicate 'hasRecipient' is obscured everywhere (lookups go by digest), (c) one recipient's
    // sealed message (or its whole assertion) is obscured: no digest changes, and every recipient whose
    // sealed message is still readable opens the envelope to the original subject.
    if subject_encryptable && src.chance(72) {
        if let Ok(enc) = e.encrypt_subject_to_recipients(&recips) {
            let has_recipient = Envelope::new(known_values::HAS_RECIPIENT);
            let sealed_assertions = enc.assertions_with_predicate(known_values::HAS_RECIPIENT);
            if !sealed_assertions.is_empty() {
                let pick = sealed_assertions[src.below(sealed_assertions.len())].clone();
                let style = src.below(7);
                // the digest of 'hasRecipient' may also belong to an element of the original envelope (its
                // subject, say): obscuring "the predicate" would then obscure that element too
                let hr = M::Known(5).digest();
                let style = if style == 1 && m.elements().iter().any(|x| x.digest() == hr) { 3 } else { style };
                let action = match src.below(3) {
                    0 => ObscureAction::Elide,
                    1 => ObscureAction::Encrypt(bridge::case_key()),
                    _ => ObscureAction::Compress,
                };
                let (name, changed, all_must_open): (&str, Envelope, bool) = match style {
                    0 => {
                        let decorated = if src.bool() { pick.add_salt() } else { pick.add_assertion(known_values::NOTE, "added for the board") };
                        ("decorated-hasRecipient-assertion", nopanic!(ctx, enc.replace_assertion(pick.clone(), decorated).map_err(|x| x.to_string()), "held", "C10/held").unwrap_or(enc.clone()), true)
                    }
                    1 => ("hasRecipient-predicate-obscured", nopanic!(ctx, enc.elide_removing_target_with_action(&has_recipient, &action), "held", "C10/held"), true),
                    4 => {
                        // the sealed message itself annotated: 'hasRecipient': SealedMessage ['note': ..]
                        let annotated = Envelope::new_assertion(known_values::HAS_RECIPIENT, pick.as_object().unwrap().add_assertion(known_values::NOTE, "for the treasurer"));
                        ("annotated-sealed-message", nopanic!(ctx, enc.replace_assertion(pick.clone(), annotated).map_err(|x| x.to_string()), "held", "C10/held").unwrap_or(enc.clone()), true)
                    }
                    6 => {
                        // somebody who only knows a listed recipient's PUBLIC key adds a sealed message for them
                        // that holds no content key (junk, nothing, or a key that opens nothing): the genuine
                        // sealed message is still there, so every listed recipient still opens the envelope
                        let ri = *distinct.iter().nth(src.below(distinct.len())).unwrap();
                        let payload: Vec<u8> = match src.below(3) {
                            0 => b"no content key here".to_vec(),
                            1 => vec![],
                            _ => SymmetricKey::new().to_cbor_data(),
                        };
                        let junk = Envelope::new_assertion(known_values::HAS_RECIPIENT, bc_components::SealedMessage::new(payload, &pool.enc[ri].public));
                        ("junk-sealed-message-added", nopanic!(ctx, enc.add_assertion_envelope(junk).map_err(|x| x.to_string()), "held", "C10/held").unwrap_or(enc.clone()), true)
                    }
                    5 => {
                        // annotated AND redacted: 'hasRecipient': ELIDED ['note': ..] - that one message is
                        // unreadable, the others are not
                        let obj = pick.as_object().unwrap();
                        let annotated = Envelope::new_assertion(known_values::HAS_RECIPIENT, obj.add_assertion(known_values::NOTE, "for the treasurer").elide_removing_target(&obj));
                        ("annotated-sealed-message-redacted", nopanic!(ctx, enc.replace_assertion(pick.clone(), annotated).map_err(|x| x.to_string()), "held", "C10/held").unwrap_or(enc.clone()), false)
                    }
                    2 => ("one-sealed-message-obscured", nopanic!(ctx, enc.elide_removing_target_with_action(&pick.as_object().unwrap(), &action), "held", "C10/held"), false),
                    _ => ("one-hasRecipient-assertion-obscured", nopanic!(ctx, enc.elide_removing_target_with_action(&pick, &action), "held", "C10/held"), false),
                };
                ctx.class(&format!("held:{}", name));
                let hkey = format!("C10/held/{}", name);
                if style != 0 && style != 4 && style != 5 && style != 6 {
                    check!(ctx, changed.digest() == enc.digest(), "held", &hkey, "obscuring changed the digest");
                }
                let mut opened = 0usize;
                for &i in &distinct {
                    let r = nopanic!(ctx, changed.decrypt_subject_to_recipient(&pool.enc[i].private).map(|d| d.subject().to_cbor_data()).map_err(|x| x.to_string()), "held", &hkey);
                    match r {
                        Ok(b) => {
                            check!(ctx, b == subject_bytes, "held", &hkey, "a recipient decrypted to another subject");
                            opened += 1;
                        }
                        Err(err) => {
                            check!(ctx, !all_must_open, "held", &hkey, "listed recipient {}#{} can no longer open the envelope ({}): {}", pool.enc[i].scheme, i, name, err);
                        }
                    }
                }
                // one sealed message was made unreadable: at most the recipients it was for are locked out
                // (duplicates in the list have further sealed messages of their own)
                check!(ctx, opened + 1 >= distinct.len(), "held", &hkey, "one sealed message was obscured, yet only {} of {} distinct recipients can still open the envelope", opened, distinct.len());
                let outsider = (0..pool.enc.len()).find(|i| !distinct.contains(i));
                if let Some(o) = outsider {
                    let r = nopanic!(ctx, changed.decrypt_subject_to_recipient(&pool.enc[o].private), "held", &hkey);
                    check!(ctx, r.is_err(), "held", &hkey, "an unlisted key opened the envelope");
                }
                ctx.nontrivial = true;
            }
        }
    }
    if listed.len() >= 2 {
        ctx.nontrivial = true;
    }
    Outcome::Pass
}
