//! C04 — every envelope the library emits is canonical and well-formed (stateful).

use crate::bridge::{self, build_a, build_b, check_bytes, check_digests, spec_model};
use crate::engine::{Ctx, Outcome, Prop};
use crate::gen::{self, GenCfg};
use crate::props::c01::{run_history, HistStats};
use crate::src::Src;
use crate::{nopanic, tryp};

pub fn prop() -> Prop {
    Prop {
        id: "C04",
        run,
        max_len: 900,
        quick: 120_000,
        thorough: 1_200_000,
        rule: "choice sequence -> small start envelope (<=12 elements, route A or B) + history of 1-12 operations from {add, add-duplicate (also in obscured form), remove, remove-absent, replace, replace_subject, wrap, unwrap, elide set (3 actions, 2 modes), elide, compress, compress_subject, uncompress, uncompress_subject, encrypt_subject (2 keys), decrypt_subject (right/wrong key), encrypt, decrypt, add_salt, add_signature, add_recipient, add_type, add_attachment, add_assertion_salted, encode->decode}; invariant after EVERY step: emitted bytes pass the harness's strict dCBOR parser and envelope-grammar recogniser (node arity >= 2, slot validity, strictly ascending pairwise-distinct assertion digests, 32-byte digests, digests on encrypted/compressed), equal the harness encoding of the structure, digests recomputed from the parsed bytes equal the library's at every position, and the documented effect of the step holds. non-trivial: >=3 effective steps incl. one of {remove-last, add-duplicate, replace-subject-by-node, add-after-obscure}; distinct by FNV-64 of (start encoding, op names); plus operations that must be refused: add of a non-assertion, import (Envelope::try_from) of an EncryptedMessage / Compressed without a usable digest declaration, add-bulk-with-repeats, replace-by-equal, import-and-open of a compressed / encrypted element whose content is a node with repeated or out-of-order elements (must be refused), add-subject-as-assertion (accepted iff the subject is an assertion or obscured), replace_subject with a subject that carries one of the receiver's assertions (or the receiver itself)",
        assumptions: &["operations that legitimately return Err leave the state unchanged and are counted as refused"],
        extra: None,
    }
}

pub fn run(data: &[u8], ctx: &mut Ctx) -> Outcome {
    let mut src = Src::new(data);
    let mut cfg = GenCfg::new(3, 12);
    let spec = gen::gen_spec(&mut src, &mut cfg);
    let model = spec_model(&spec);
    ctx.fingerprint(&model.tagged());
    let e = if src.chance(90) {
        let b = nopanic!(ctx, build_b(&model), "build", "C04/build");
        tryp!(ctx, b, "build", "C04/build")
    } else {
        nopanic!(ctx, build_a(&spec, &mut src), "build", "C04/build")
    };
    let lm = nopanic!(ctx, check_digests(&e), "start", "C04/start");
    let lm = tryp!(ctx, lm, "start", "C04/start");
    let r = nopanic!(ctx, check_bytes(&e, &lm), "start", "C04/start");
    tryp!(ctx, r, "start", "C04/start");
    let m = tryp!(ctx, bridge::read_out(&e), "readout", "C04/readout");
    let steps = 1 + src.below(12);
    let mut stats = HistStats::default();
    let start = m.show();
    ctx.sample_with(|| format!("{}  ::  (history did not complete)", start));
    match run_history(ctx, &mut src, e, m, steps, "C04", &mut stats) {
        Outcome::Pass => {}
        other => return other,
    }
    ctx.count("steps-effective", stats.effective as u64);
    if stats.remove_last {
        ctx.class("hist:remove-last");
    }
    if stats.add_duplicate {
        ctx.class("hist:add-duplicate");
    }
    if stats.replace_subject_by_node {
        ctx.class("hist:replace-subject-by-node");
    }
    if stats.obscure_then_add {
        ctx.class("hist:add-after-obscure");
    }
    ctx.nontrivial = stats.effective >= 3 && (stats.remove_last || stats.add_duplicate || stats.replace_subject_by_node || stats.obscure_then_add);
    if ctx.want_sample {
        ctx.sample = Some(format!("{}  ::  {}", start, stats.ops.join(" ; ")));
    }
    Outcome::Pass
}
