//! C12 — inclusion proofs are complete, sound and minimally revealing.

use crate::bridge::{self, build_a, build_b, check_bytes, check_digests, d32, spec_model, to_hashset};
use crate::cbor::{self, RItem};
use crate::engine::{Ctx, Outcome, Prop};
use crate::gen::{self, GenCfg};
use crate::model::{D32, M};
use crate::src::Src;
use crate::{check, nopanic, tryp};
use bc_components::DigestProvider;
use bc_envelope::prelude::*;
use std::collections::BTreeSet;

pub fn prop() -> Prop {
    Prop {
        id: "C12",
        run,
        max_len: 600,
        quick: 200_000,
        thorough: 2_500_000,
        rule: "choice sequence -> envelope (incl. repeated digests, wrapped, already-obscured parts) x target set {single, several, multi-position, the root, one target inside another, empty, with 1-2 absent digests}; for soundness: candidate proofs = the produced proof, proofs decoded from structurally mutated bytes of it (an elided digest replaced, an element dropped / duplicated / swapped, subject replaced), the proof of an unrelated envelope, proofs for other targets of the same envelope, the envelope itself. oracle: proof_contains_set(T) is Some iff T is a subset of the model's element digests; a produced proof has the model root digest and is confirmed for T by a verifier holding only the elided root; confirm_contains_set(T, P') for ANY candidate P' equals the model's evaluation root(P')=root AND T subset of digests(P') computed by the harness from P'; minimality: every non-elided element of the proof lies strictly above a target occurrence, every innermost target occurrence and every off-path element is an Elided case (34 serialised bytes). non-trivial: >=2 targets, or a target at depth >=2, or a mutated candidate that still decodes; distinct by FNV-64 of (encoding, targets)",
        assumptions: &["a target that contains another target is necessarily revealed in the proof (the inner one could not be reached otherwise): 'each target appears solely as an elided digest' is applied to innermost target occurrences"],
        extra: None,
    }
}

/// Depth-aware target generator (wants nested and multi-position sets).
fn gen_proof_targets(src: &mut Src, m: &M, allow_nested: bool) -> (BTreeSet<D32>, &'static str) {
    let els = m.elements();
    let mut t = BTreeSet::new();
    let kind = src.weighted(&[30, 25, 8, 12, 5, 10, 10]);
    let name = match kind {
        0 => {
            t.insert(els[src.below(els.len())].digest());
            "single"
        }
        1 => {
            for _ in 0..2 + src.below(3) {
                t.insert(els[src.below(els.len())].digest());
            }
            "several"
        }
        2 => {
            t.insert(m.digest());
            "root"
        }
        3 => {
            // nested: an element and one of its proper descendants
            let i = src.below(els.len());
            let sub = els[i].elements();
            t.insert(els[i].digest());
            if sub.len() > 1 {
                t.insert(sub[1 + src.below(sub.len() - 1)].digest());
            }
            "nested"
        }
        4 => "empty",
        5 => {
            t.insert(els[src.below(els.len())].digest());
            let mut d = [0u8; 32];
            for b in d.iter_mut() {
                *b = src.byte();
            }
            d[31] ^= 0x5a;
            t.insert(d);
            "with-absent"
        }
        _ => {
            // prefer a digest that occurs at several positions
            let mut counts: std::collections::BTreeMap<D32, usize> = Default::default();
            for e in &els {
                *counts.entry(e.digest()).or_insert(0) += 1;
            }
            let multi: Vec<D32> = counts.iter().filter(|(_, c)| **c > 1).map(|(d, _)| *d).collect();
            if multi.is_empty() {
                t.insert(els[src.below(els.len())].digest());
            } else {
                t.insert(multi[src.below(multi.len())]);
            }
            "multi-position"
        }
    };
    if !allow_nested && has_nested(m, &t) {
        // keep only innermost... simplest: drop targets until no nesting remains
        let mut v: Vec<D32> = t.iter().cloned().collect();
        while has_nested(m, &v.iter().cloned().collect()) {
            v.pop();
        }
        return (v.into_iter().collect(), "denested");
    }
    (t, name)
}

/// Does some target occur strictly inside an occurrence of a target?
pub fn has_nested(m: &M, t: &BTreeSet<D32>) -> bool {
    fn rec(m: &M, t: &BTreeSet<D32>, inside: bool) -> bool {
        let is_t = t.contains(&m.digest());
        if is_t && inside {
            return true;
        }
        m.children().iter().any(|c| rec(c, t, inside || is_t))
    }
    rec(m, t, false)
}

/// Model evaluation of a candidate proof.
fn model_confirm(root: &D32, t: &BTreeSet<D32>, proof: &M) -> bool {
    if proof.digest() != *root {
        return false;
    }
    let ds = proof.all_digests();
    t.iter().all(|d| ds.contains(d))
}

/// Minimality predicate over (original, proof) walked position-wise.
fn minimal(orig: &M, proof: &M, t: &BTreeSet<D32>, path: &mut Vec<usize>) -> Result<(), String> {
    fn contains_target_below(m: &M, t: &BTreeSet<D32>) -> bool {
        m.children().iter().any(|c| t.contains(&c.digest()) || contains_target_below(c, t))
    }
    if matches!(proof, M::Elided(_)) {
        return Ok(());
    }
    // a revealed element must lie strictly above a target occurrence
    if !contains_target_below(orig, t) {
        return Err(format!("element at {:?} ({:?}) is revealed but no target lies below it", path, orig.kind()));
    }
    if proof.kind() != orig.kind() {
        return Err(format!("proof element at {:?} has case {:?}, original {:?}", path, proof.kind(), orig.kind()));
    }
    let co = orig.children();
    let cp = proof.children();
    if co.len() != cp.len() {
        return Err(format!("proof element at {:?} has {} children, original {}", path, cp.len(), co.len()));
    }
    for (i, (o, p)) in co.iter().zip(cp.iter()).enumerate() {
        path.push(i);
        minimal(o, p, t, path)?;
        path.pop();
    }
    Ok(())
}

fn mutate_proof(bytes: &[u8], src: &mut Src) -> Option<(Vec<u8>, &'static str)> {
    let p = cbor::parse(bytes).ok()?;
    let mut raw = cbor::to_raw(bytes, &p.root);
    let n = raw.count();
    let kind = src.below(5);
    let name = ["digest-replaced", "element-dropped", "element-duplicated", "elements-swapped", "subject-replaced"][kind];
    // collect candidate indices
    let mut idx: Vec<usize> = Vec::new();
    for i in 0..n {
        let mut j = i;
        if let Some(r) = raw.nth_mut(&mut j) {
            let ok = match kind {
                0 => matches!(r, RItem::B(b, _) if b.len() == 32),
                1 | 2 | 3 => matches!(r, RItem::A(xs, ..) if xs.len() >= 2),
                _ => matches!(r, RItem::A(xs, ..) if !xs.is_empty()),
            };
            if ok {
                idx.push(i);
            }
        }
    }
    if idx.is_empty() {
        return None;
    }
    let mut i = idx[src.below(idx.len())];
    let r = raw.nth_mut(&mut i)?;
    match (kind, r) {
        (0, RItem::B(b, _)) => {
            let k = src.below(32);
            b[k] ^= 1 << src.below(8);
        }
        (1, RItem::A(xs, ..)) => {
            let k = 1 + src.below(xs.len() - 1);
            xs.remove(k);
        }
        (2, RItem::A(xs, ..)) => {
            let k = 1 + src.below(xs.len() - 1);
            let x = xs[k].clone();
            xs.push(x);
        }
        (3, RItem::A(xs, ..)) => {
            if xs.len() < 3 {
                return None;
            }
            let a = 1 + src.below(xs.len() - 1);
            let b = 1 + (a % (xs.len() - 1));
            xs.swap(a, b);
        }
        (_, RItem::A(xs, ..)) => {
            xs[0] = RItem::Tag(201, 0, Box::new(RItem::T(b"replaced".to_vec(), 0)));
        }
        _ => return None,
    }
    Some((cbor::emit(&raw), name))
}

pub fn run(data: &[u8], ctx: &mut Ctx) -> Outcome {
    let mut src = Src::new(data);
    let mut cfg = GenCfg::new(5, 40);
    cfg.zoo = false; // small leaf pool: digests recur at several positions
    cfg.obscured = src.chance(64);
    let spec = gen::gen_spec(&mut src, &mut cfg);
    let model = spec_model(&spec);
    ctx.fingerprint(&model.tagged());
    let e = if src.chance(64) {
        let b = nopanic!(ctx, build_b(&model), "build", "C12/build");
        tryp!(ctx, b, "build", "C12/build")
    } else {
        nopanic!(ctx, build_a(&spec, &mut src), "build", "C12/build")
    };
    let m = tryp!(ctx, bridge::read_out(&e), "readout", "C12/readout");
    let root = m.digest();
    let digests = m.all_digests();

    const NESTED_KEY: &str = "C12/confirm/nested-targets";
    // while the nested-target finding is open, keep it to a small dedicated stream so the search goes on
    let nested_open = ctx.is_open(NESTED_KEY);
    let allow_nested = !nested_open || src.chance(20);
    let (t, tname) = gen_proof_targets(&mut src, &m, allow_nested);
    if nested_open && !allow_nested {
        ctx.excluded_known += 1;
    }
    let nested = has_nested(&m, &t);
    ctx.class(&format!("targets:{}", tname));
    if nested {
        ctx.class("nested-targets");
    }
    for d in &t {
        ctx.fingerprint(d);
    }
    ctx.sample_with(|| format!("{} targets [{}] ({})", m.show(), t.iter().map(crate::model::hex32).collect::<Vec<_>>().join(","), tname));
    let hs = to_hashset(&t);

    // --- completeness
    let proof = nopanic!(ctx, e.proof_contains_set(&hs), "proof", "C12/proof");
    let all_present = t.iter().all(|d| digests.contains(d));
    match (&proof, all_present) {
        (None, true) => {
            check!(ctx, false, "completeness", "C12/completeness/no-proof", "no proof produced although every target occurs in {}", m.show());
        }
        (Some(_), false) => {
            check!(ctx, false, "completeness", "C12/completeness/proof-for-absent", "a proof was produced although a target does not occur in the envelope");
        }
        _ => {}
    }
    if t.len() == 1 {
        let d = bridge::dig(t.iter().next().unwrap());
        let p1 = nopanic!(ctx, e.proof_contains_target(&d), "proof", "C12/proof");
        check!(ctx, p1.is_some() == proof.is_some(), "completeness", "C12/completeness/target-form", "proof_contains_target disagrees with proof_contains_set");
    }
    let root_only = nopanic!(ctx, e.elide(), "proof", "C12/proof");
    let mut candidates: Vec<(String, Envelope)> = Vec::new();
    if let Some(proof) = &proof {
        let pm = nopanic!(ctx, check_digests(proof), "proof", "C12/proof");
        let pm = tryp!(ctx, pm, "proof", "C12/proof");
        let pb = nopanic!(ctx, check_bytes(proof, &pm), "proof", "C12/proof");
        let pb = tryp!(ctx, pb, "proof", "C12/proof");
        check!(ctx, pm.digest() == root && d32(&proof.digest()) == root, "proof", "C12/proof/root", "the proof's root digest differs from the envelope's");
        // accepted by a verifier that holds only the root digest
        let ok = nopanic!(ctx, root_only.confirm_contains_set(&hs, proof), "confirm", "C12/confirm");
        let key = if nested { NESTED_KEY } else { "C12/confirm/own-proof-rejected" };
        check!(ctx, ok, "confirm", key, "the proof produced for targets [{}] of {} is rejected by confirm_contains_set (proof: {})", t.iter().map(crate::model::hex32).collect::<Vec<_>>().join(","), m.show(), pm.show());
        if t.len() == 1 {
            let d = bridge::dig(t.iter().next().unwrap());
            let ok1 = nopanic!(ctx, root_only.confirm_contains_target(&d, proof), "confirm", "C12/confirm");
            check!(ctx, ok1, "confirm", "C12/confirm/own-proof-rejected", "confirm_contains_target rejects the produced proof");
        }
        // minimality
        tryp!(ctx, minimal(&m, &pm, &t, &mut Vec::new()).map_err(|s| format!("proof {} for targets [{}] of {}: {}", pm.show(), t.iter().map(crate::model::hex32).collect::<Vec<_>>().join(","), m.show(), s)), "minimality", "C12/minimality");
        // innermost target occurrences are elided: no target digest belongs to a revealed element that has no target below
        for el in pm.elements() {
            if t.contains(&el.digest()) && !matches!(el, M::Elided(_)) {
                let has_below = el.elements().iter().skip(1).any(|x| t.contains(&x.digest()));
                check!(ctx, has_below, "minimality", "C12/minimality/target-revealed", "an innermost target is revealed in the proof {}", pm.show());
            }
        }
        ctx.count("proof-elided-elements", pm.elements().iter().filter(|x| matches!(x, M::Elided(_))).count() as u64);
        candidates.push(("own".into(), proof.clone()));
        // mutated proofs
        for _ in 0..3 {
            if let Some((mb, name)) = mutate_proof(&pb, &mut src) {
                if let Ok(me) = Envelope::try_from_cbor_data(mb) {
                    candidates.push((format!("mutant:{}", name), me));
                    ctx.nontrivial = true;
                }
            }
        }
    }
    // proofs for other targets of the same envelope
    {
        let (t2, _) = gen_proof_targets(&mut src, &m, allow_nested);
        if let Some(p2) = nopanic!(ctx, e.proof_contains_set(&to_hashset(&t2)), "proof", "C12/proof") {
            candidates.push(("other-targets".into(), p2));
        }
    }
    // the proof of an unrelated envelope, and the full envelope itself
    {
        let other = Envelope::new("unrelated").add_assertion("knows", "Bob");
        let d: BTreeSet<D32> = [d32(&other.subject().digest())].into_iter().collect();
        if let Some(p3) = other.proof_contains_set(&to_hashset(&d)) {
            candidates.push(("other-envelope".into(), p3));
        }
        candidates.push(("full-envelope".into(), e.clone()));
        candidates.push(("root-only".into(), root_only.clone()));
    }
    // --- soundness: confirm == model evaluation, for every candidate and for two target sets
    let (t_other, _) = gen_proof_targets(&mut src, &m, true);
    for (name, cand) in &candidates {
        let cm = tryp!(ctx, bridge::read_out(cand), "readout", "C12/readout");
        for (which, ts) in [("T", &t), ("T'", &t_other)] {
            let want = model_confirm(&root, ts, &cm);
            for verifier in [&root_only, &e] {
                let got = nopanic!(ctx, verifier.confirm_contains_set(&to_hashset(ts), cand), "soundness", "C12/soundness");
                let key = if got && !want { "C12/soundness/accepts" } else { "C12/soundness/rejects" };
                let key = if nested && name == "own" && which == "T" { NESTED_KEY } else { key };
                check!(ctx, got == want, "soundness", key, "confirm_contains_set({}, candidate {}) = {} but root-equal-and-targets-present evaluates to {} (candidate {})", which, name, got, want, cm.show());
            }
        }
        ctx.class(&format!("candidate:{}", name.split(':').next().unwrap_or("")));
    }
    let depth2 = {
        fn depth_of(m: &M, t: &BTreeSet<D32>, d: usize) -> usize {
            let here = if t.contains(&m.digest()) { d } else { 0 };
            m.children().iter().map(|c| depth_of(c, t, d + 1)).max().unwrap_or(0).max(here)
        }
        depth_of(&m, &t, 0) >= 2
    };
    if t.len() >= 2 || depth2 {
        ctx.nontrivial = true;
    }
    Outcome::Pass
}
