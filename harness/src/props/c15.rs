//! C15 — traversal and queries agree with the envelope's structure.

use crate::bridge::{self, build_a, build_b, d32, spec_model};
use crate::cbor::{self, Item};
use crate::engine::{Ctx, Outcome, Prop};
use crate::gen::{self, GenCfg};
use crate::model::{D32, M};
use crate::src::Src;
use crate::{check, nopanic, tryp};
use bc_components::DigestProvider;
use bc_envelope::prelude::*;
use std::cell::RefCell;
use std::collections::BTreeSet;

pub fn prop() -> Prop {
    Prop {
        id: "C15",
        run,
        max_len: 600,
        quick: 150_000,
        thorough: 2_000_000,
        rule: "choice sequence -> envelope (nodes under wrapped under assertions, repeated predicates, obscured assertions / predicates / objects, assertions carrying assertions, node-as-subject) x both walk modes x level limit 0..depth+2 x predicates {present once, several times, absent, present but elided} x extraction types {String, u8..u64, i8..i64, f32, f64, bool, ByteString}. oracle: an independent recursion over case() gives the expected visit list [(digest, level, edge, parent)]; walk(false) must produce exactly it and thread the visitor's return value to exactly the children; walk(true) must produce the same sequence without node elements, at the documented tree-view levels, edge None; elements_count, digests(l) for every l, deep_/shallow_digests, subject(), assertions(), is_*/as_* accessors equal the model's; assertions_with_predicate / assertion_with_ / object_for_ / optional_* / objects_for_ return exactly the elements whose (subject-)assertion's predicate digest equals digest(p), or the none / ambiguous errors; typed extraction returns Ok(v) only if the harness's own dCBOR encoding of v is the stored leaf, otherwise Err. non-trivial: depth >= 2 and >= 1 lookup with != 1 match or through an elided predicate; distinct by FNV-64 of the encoding; both extraction routes (extract_* via TryFrom<CBOR>, try_as / try_object_for_predicate / try_optional_ / try_objects_ via TryFrom<Envelope>); structural extraction types Envelope / KnownValue / Digest / Assertion judged against what the wrapped / known-value / elided / assertion subject stores; one case in ten under 33-40 wrappers; extract_objects_for_predicate: all matching objects or an error; a second walk with a visitor that returns None at every third element (both modes)",
        assumptions: &["tree-mode levels: a node is transparent (subject at the node's level, its assertions one deeper), children of wrapped / assertion one deeper — as pinned by the golden tree_format(true) strings of the test-suite"],
        extra: None,
    }
}

#[derive(Clone, Debug, PartialEq)]
struct Visit {
    digest: D32,
    level: usize,
    edge: &'static str,
    parent: Option<usize>,
}

fn edge_name(e: EdgeType) -> &'static str {
    match e {
        EdgeType::None => "none",
        EdgeType::Subject => "subject",
        EdgeType::Assertion => "assertion",
        EdgeType::Predicate => "predicate",
        EdgeType::Object => "object",
        EdgeType::Wrapped => "wrapped",
    }
}

/// Expected structure walk: every element once, pre-order, parents first.
fn model_structure(m: &M, level: usize, edge: &'static str, parent: Option<usize>, out: &mut Vec<Visit>) {
    let me = out.len();
    out.push(Visit { digest: m.digest(), level, edge, parent });
    match m {
        M::Node(s, a) => {
            model_structure(s, level + 1, "subject", Some(me), out);
            for x in a {
                model_structure(x, level + 1, "assertion", Some(me), out);
            }
        }
        M::Wrapped(i) => model_structure(i, level + 1, "wrapped", Some(me), out),
        M::Assertion(p, o) => {
            model_structure(p, level + 1, "predicate", Some(me), out);
            model_structure(o, level + 1, "object", Some(me), out);
        }
        _ => {}
    }
}

/// Expected tree walk. Returns the visit index children of an enclosing node hang off.
fn model_tree(m: &M, level: usize, parent: Option<usize>, out: &mut Vec<Visit>) -> Option<usize> {
    match m {
        M::Node(s, a) => {
            // transparent: the subject takes the node's place, assertions hang one level below the subject
            let hook = model_tree(s, level, parent, out);
            for x in a {
                model_tree(x, level + 1, hook, out);
            }
            parent
        }
        _ => {
            let me = out.len();
            out.push(Visit { digest: m.digest(), level, edge: "none", parent });
            match m {
                M::Wrapped(i) => {
                    model_tree(i, level + 1, Some(me), out);
                }
                M::Assertion(p, o) => {
                    model_tree(p, level + 1, Some(me), out);
                    model_tree(o, level + 1, Some(me), out);
                }
                _ => {}
            }
            Some(me)
        }
    }
}

fn lib_walk(e: &Envelope, hide_nodes: bool) -> Vec<Visit> {
    let out: RefCell<Vec<Visit>> = RefCell::new(Vec::new());
    let visitor = |env: Envelope, level: usize, edge: EdgeType, parent: Option<usize>| -> Option<usize> {
        let mut o = out.borrow_mut();
        let me = o.len();
        o.push(Visit { digest: d32(&env.digest()), level, edge: edge_name(edge), parent });
        Some(me)
    };
    e.walk(hide_nodes, &visitor);
    out.into_inner()
}

/// The same walk with a visitor that hands a context down only from some elements (visit index % 3 != 1)
/// and None from the others: what an element returns reaches exactly its children.
fn lib_walk_selective(e: &Envelope, hide_nodes: bool) -> Vec<Visit> {
    let out: RefCell<Vec<Visit>> = RefCell::new(Vec::new());
    let visitor = |env: Envelope, level: usize, edge: EdgeType, parent: Option<usize>| -> Option<usize> {
        let mut o = out.borrow_mut();
        let me = o.len();
        o.push(Visit { digest: d32(&env.digest()), level, edge: edge_name(edge), parent });
        if me % 3 != 1 {
            Some(me)
        } else {
            None
        }
    };
    e.walk(hide_nodes, &visitor);
    out.into_inner()
}

fn selective_expectation(want: &[Visit]) -> Vec<Visit> {
    want.iter().map(|v| Visit { digest: v.digest, level: v.level, edge: v.edge, parent: v.parent.and_then(|p| if p % 3 != 1 { Some(p) } else { None }) }).collect()
}

fn leaf_of(m: &M) -> Option<&Vec<u8>> {
    match m {
        M::Leaf(b) => Some(b),
        _ => None,
    }
}

/// The assertion elements of `m` (library order) whose (subject-)assertion has predicate digest `pd`.
fn model_matches<'a>(m: &'a M, pd: &D32) -> Vec<&'a M> {
    m.assertions()
        .iter()
        .filter(|a| match a.subject() {
            M::Assertion(p, _) => &p.digest() == pd,
            _ => false,
        })
        .collect()
}

fn object_of(a: &M) -> Option<&M> {
    match a.subject() {
        M::Assertion(_, o) => Some(o),
        _ => None,
    }
}

macro_rules! typed {
    ($ctx:expr, $env:expr, $leaf:expr, $t:ty, $name:expr, $to_item:expr) => {{
        typed!(@route $ctx, $env.extract_subject::<$t>(), "extract_subject", $leaf, $t, $name, $to_item);
    }};
    // the conversion route (TryFrom<Envelope>): try_as on a bare leaf element
    (@try_as $ctx:expr, $env:expr, $leaf:expr, $t:ty, $name:expr, $to_item:expr) => {{
        typed!(@route $ctx, $env.try_as::<$t>(), "try_as", $leaf, $t, $name, $to_item);
    }};
    (@route $ctx:expr, $call:expr, $route:expr, $leaf:expr, $t:ty, $name:expr, $to_item:expr) => {{
        let r = nopanic!($ctx, $call, "extract", "C15/extract");
        if let Ok(v) = r {
            let item: Item = $to_item(v);
            let enc = cbor::encode(&item);
            let stored: Option<&Vec<u8>> = $leaf;
            let ok = stored.map(|b| *b == enc).unwrap_or(false);
            let sign = match stored.and_then(|b| b.first()) {
                Some(b) if b >> 5 == 1 => "negative-integer",
                Some(b) if b >> 5 == 0 => "unsigned-integer",
                Some(b) if b >> 5 == 7 => "float-or-simple",
                _ => "other",
            };
            let key = format!("C15/extract/{}-from-{}", $name, sign);
            if !ok && $ctx.note_known(&key) {
                // listed dependency defect: counted, the case goes on
            } else {
                check!($ctx, ok, "extract", &key, "{}::<{}>() returned a value that is not the stored one: stored {} extracted {}", $route, $name, stored.map(|b| cbor::diag_bytes(b)).unwrap_or("<not a leaf>".into()), cbor::diag(&item));
            }
            $ctx.class(&format!("{}-ok:{}", if $route == "try_as" { "try_as" } else { "extract" }, $name));
        }
    }};
}

fn int_item(v: i64) -> Item {
    if v >= 0 {
        Item::U(v as u64)
    } else {
        Item::N((-1 - v) as u64)
    }
}

pub fn run(data: &[u8], ctx: &mut Ctx) -> Outcome {
    let mut src = Src::new(data);
    let mut cfg = GenCfg::new(5, 40);
    // half the cases use the small pool (repeated predicates), half the zoo (typed extraction)
    cfg.zoo = src.bool();
    let spec = gen::gen_spec(&mut src, &mut cfg);
    // one case in ten is the same envelope under 33-40 wrappers: its elements lie deeper than any fixed
    // traversal limit one might think of. Decided by the generated envelope itself - no choice is drawn.
    let spec = {
        let h = crate::src::fnv(&spec_model(&spec).tagged());
        if h % 10 == 0 {
            ctx.class("deeply-wrapped(33-40)");
            let mut s = spec;
            for _ in 0..33 + (h / 10) % 8 {
                s = gen::Spec::Wrapped(Box::new(s));
            }
            s
        } else {
            spec
        }
    };
    let model = spec_model(&spec);
    ctx.fingerprint(&model.tagged());
    ctx.sample_with(|| model.show());
    let e = if src.chance(64) {
        let b = nopanic!(ctx, build_b(&model), "build", "C15/build");
        tryp!(ctx, b, "build", "C15/build")
    } else {
        nopanic!(ctx, build_a(&spec, &mut src), "build", "C15/build")
    };
    // optionally elide some predicates (lookups must still find them by digest)
    let e = if src.chance(80) {
        let m0 = tryp!(ctx, bridge::read_out(&e), "readout", "C15/readout");
        let preds: BTreeSet<D32> = m0.assertions().iter().filter_map(|a| if let M::Assertion(p, _) = a.subject() { Some(p.digest()) } else { None }).collect();
        let pick: BTreeSet<D32> = preds.into_iter().filter(|_| src.bool()).collect();
        if !pick.is_empty() {
            ctx.class("elided-predicate");
        }
        nopanic!(ctx, e.elide_removing_set(&bridge::to_hashset(&pick)), "build", "C15/build")
    } else {
        e
    };
    let m = tryp!(ctx, bridge::read_out(&e), "readout", "C15/readout");

    // --- structure walk
    let mut want = Vec::new();
    model_structure(&m, 0, "none", None, &mut want);
    let got = nopanic!(ctx, lib_walk(&e, false), "walk", "C15/walk/structure");
    if got != want {
        let i = got.iter().zip(want.iter()).position(|(a, b)| a != b).unwrap_or(got.len().min(want.len()));
        check!(ctx, false, "walk", "C15/walk/structure", "structure walk of {} differs at visit {}: got {:?}, expected {:?} (lengths {} vs {})", m.show(), i, got.get(i), want.get(i), got.len(), want.len());
    }
    let n = nopanic!(ctx, e.elements_count(), "count", "C15/elements_count");
    check!(ctx, n == want.len() && n == m.elements_count(), "count", "C15/elements_count", "elements_count() = {} but the structure has {} elements ({})", n, want.len(), m.show());

    // --- tree walk
    let mut want_t = Vec::new();
    model_tree(&m, 0, None, &mut want_t);
    let got_t = nopanic!(ctx, lib_walk(&e, true), "walk", "C15/walk/tree");
    if got_t != want_t {
        let i = got_t.iter().zip(want_t.iter()).position(|(a, b)| a != b).unwrap_or(got_t.len().min(want_t.len()));
        check!(ctx, false, "walk", "C15/walk/tree", "tree walk of {} differs at visit {}: got {:?}, expected {:?} (lengths {} vs {})", m.show(), i, got_t.get(i), want_t.get(i), got_t.len(), want_t.len());
    }
    // a visitor that returns None at some elements: their children - and only theirs - get None
    for (mode, w) in [(false, &want), (true, &want_t)] {
        let got_s = nopanic!(ctx, lib_walk_selective(&e, mode), "walk", "C15/walk/context");
        let want_s = selective_expectation(w);
        if got_s != want_s {
            let i = got_s.iter().zip(want_s.iter()).position(|(a, b)| a != b).unwrap_or(got_s.len().min(want_s.len()));
            check!(ctx, false, "walk", "C15/walk/context", "{} walk of {} with a visitor that returns None at every third element: visit {} got {:?}, expected {:?}", if mode { "tree" } else { "structure" }, m.show(), i, got_s.get(i), want_s.get(i));
        }
    }
    // the tree walk is the structure walk minus node elements
    let non_nodes: Vec<D32> = m.elements().iter().filter(|x| !matches!(x, M::Node(..))).map(|x| x.digest()).collect();
    // (model elements() sorts assertions; compare as multisets)
    let mut a: Vec<D32> = got_t.iter().map(|v| v.digest).collect();
    let mut b = non_nodes.clone();
    a.sort();
    b.sort();
    check!(ctx, a == b, "walk", "C15/walk/tree", "tree walk does not visit exactly the non-node elements");

    // --- digests(level)
    let depth = m.depth();
    for l in 0..=depth + 2 {
        let mut want_d: BTreeSet<D32> = BTreeSet::new();
        // for every structure visit at level < l: the element's digest and its subject's digest
        fn collect(m: &M, level: usize, l: usize, out: &mut BTreeSet<D32>) {
            if level < l {
                out.insert(m.digest());
                out.insert(m.subject().digest());
            }
            for c in m.children() {
                collect(c, level + 1, l, out);
            }
        }
        collect(&m, 0, l, &mut want_d);
        let got_d: BTreeSet<D32> = nopanic!(ctx, e.digests(l), "digests", "C15/digests").iter().map(d32).collect();
        check!(ctx, got_d == want_d, "digests", "C15/digests", "digests({}) of {} has {} entries, expected {}", l, m.show(), got_d.len(), want_d.len());
    }
    let deep: BTreeSet<D32> = nopanic!(ctx, e.deep_digests(), "digests", "C15/digests").iter().map(d32).collect();
    check!(ctx, deep == m.all_digests(), "digests", "C15/digests/deep", "deep_digests() differs from the set of all element digests");
    let shallow: BTreeSet<D32> = nopanic!(ctx, e.shallow_digests(), "digests", "C15/digests").iter().map(d32).collect();
    let shallow2: BTreeSet<D32> = e.digests(2).iter().map(d32).collect();
    check!(ctx, shallow == shallow2, "digests", "C15/digests/shallow", "shallow_digests() != digests(2)");

    // --- accessors
    check!(ctx, d32(&e.subject().digest()) == m.subject().digest(), "accessors", "C15/accessors", "subject() digest differs");
    let la: Vec<D32> = e.assertions().iter().map(|a| d32(&a.digest())).collect();
    let ma: Vec<D32> = m.assertions().iter().map(|a| a.digest()).collect();
    check!(ctx, la == ma, "accessors", "C15/accessors", "assertions() differs from the node's assertion elements");
    check!(ctx, e.has_assertions() == !ma.is_empty(), "accessors", "C15/accessors", "has_assertions() wrong");
    let kind_ok = e.is_node() == matches!(m, M::Node(..))
        && e.is_leaf() == matches!(m, M::Leaf(_))
        && e.is_wrapped() == matches!(m, M::Wrapped(_))
        && e.is_assertion() == matches!(m, M::Assertion(..))
        && e.is_known_value() == matches!(m, M::Known(_))
        && e.is_elided() == matches!(m, M::Elided(_))
        && e.is_encrypted() == matches!(m, M::Encrypted(..))
        && e.is_compressed() == matches!(m, M::Compressed(..))
        && e.is_obscured() == m.is_obscured()
        && e.is_internal() == matches!(m, M::Node(..) | M::Wrapped(_) | M::Assertion(..));
    check!(ctx, kind_ok, "accessors", "C15/accessors/is", "an is_*() predicate disagrees with the case of {}", m.show());
    let s = m.subject();
    let subj_ok = e.is_subject_assertion() == m.slot_valid_assertion()
        && e.is_subject_elided() == matches!(innermost_subject(&m), M::Elided(_))
        && e.is_subject_encrypted() == matches!(innermost_subject(&m), M::Encrypted(..))
        && e.is_subject_compressed() == matches!(innermost_subject(&m), M::Compressed(..))
        && e.is_subject_obscured() == innermost_subject(&m).is_obscured();
    check!(ctx, subj_ok, "accessors", "C15/accessors/is_subject", "an is_subject_*() predicate disagrees for {}", m.show());
    let _ = s;
    match &m {
        M::Assertion(p, o) => {
            check!(ctx, e.as_predicate().map(|x| d32(&x.digest())) == Some(p.digest()) && e.as_object().map(|x| d32(&x.digest())) == Some(o.digest()) && e.as_assertion().is_some(), "accessors", "C15/accessors/as", "as_predicate/as_object wrong");
        }
        _ => {
            check!(ctx, e.as_predicate().is_none() && e.as_object().is_none() && e.as_assertion().is_none() && e.try_predicate().is_err() && e.try_object().is_err(), "accessors", "C15/accessors/as", "as_predicate/as_object on a non-assertion returned something");
        }
    }
    check!(ctx, e.as_leaf().is_some() == matches!(m, M::Leaf(_)) && e.try_leaf().is_ok() == matches!(m, M::Leaf(_)), "accessors", "C15/accessors/as", "as_leaf wrong");
    check!(ctx, e.as_known_value().map(|k| k.value()) == if let M::Known(v) = &m { Some(*v) } else { None }, "accessors", "C15/accessors/as", "as_known_value wrong");

    // --- predicate lookups
    let mut lookups: Vec<(Envelope, D32, &'static str)> = Vec::new();
    // every predicate present
    let mut seen: BTreeSet<D32> = BTreeSet::new();
    for a in m.assertions() {
        if let M::Assertion(p, _) = a.subject() {
            if seen.insert(p.digest()) {
                // a probe envelope with that digest: the elided placeholder is enough (lookups match by digest)
                let probe = Envelope::try_from_cbor_data(M::Elided(p.digest()).tagged()).unwrap();
                lookups.push((probe, p.digest(), "present"));
            }
        }
    }
    lookups.push((Envelope::new("C15-absent-predicate"), d32(&Envelope::new("C15-absent-predicate").digest()), "absent"));
    for pn in ["Alice", "knows", "isA", "name", "x"] {
        let p = Envelope::new(pn);
        let d = d32(&p.digest());
        lookups.push((p, d, "pool"));
    }
    let mut interesting = false;
    for (probe, pd, kind) in lookups {
        let want_m = model_matches(&m, &pd);
        let got_m = nopanic!(ctx, e.assertions_with_predicate(probe.clone()), "lookup", "C15/lookup");
        let gd: Vec<D32> = got_m.iter().map(|x| d32(&x.digest())).collect();
        let wd: Vec<D32> = want_m.iter().map(|x| x.digest()).collect();
        check!(ctx, gd == wd, "lookup", "C15/lookup/assertions_with_predicate", "assertions_with_predicate returned {} elements, the structure has {} matching ({} predicate) in {}", gd.len(), wd.len(), kind, m.show());
        if wd.len() != 1 {
            interesting = true;
        }
        ctx.class(&format!("lookup:{}-matches", wd.len().min(3)));
        // single-result forms
        let r1 = nopanic!(ctx, e.assertion_with_predicate(probe.clone()), "lookup", "C15/lookup/assertion_with_predicate");
        let r2 = nopanic!(ctx, e.optional_assertion_with_predicate(probe.clone()), "lookup", "C15/lookup/optional_assertion_with_predicate");
        let r3 = nopanic!(ctx, e.object_for_predicate(probe.clone()), "lookup", "C15/lookup/object_for_predicate");
        let r4 = nopanic!(ctx, e.optional_object_for_predicate(probe.clone()), "lookup", "C15/lookup/optional_object_for_predicate");
        let r5 = nopanic!(ctx, e.objects_for_predicate(probe.clone()), "lookup", "C15/lookup/objects_for_predicate");
        match wd.len() {
            0 => {
                check!(ctx, r1.is_err() && r3.is_err(), "lookup", "C15/lookup/none", "a lookup for an absent predicate returned something");
                check!(ctx, matches!(r2, Ok(None)) && matches!(r4, Ok(None)), "lookup", "C15/lookup/none", "optional lookup for an absent predicate is not Ok(None)");
                check!(ctx, r5.is_empty(), "lookup", "C15/lookup/none", "objects_for_predicate non-empty for an absent predicate");
            }
            1 => {
                let wo = object_of(want_m[0]).unwrap().digest();
                check!(ctx, matches!(&r1, Ok(x) if d32(&x.digest()) == wd[0]), "lookup", "C15/lookup/one", "assertion_with_predicate did not return the matching assertion");
                check!(ctx, matches!(&r2, Ok(Some(x)) if d32(&x.digest()) == wd[0]), "lookup", "C15/lookup/one", "optional_assertion_with_predicate did not return the matching assertion");
                check!(ctx, matches!(&r3, Ok(x) if d32(&x.digest()) == wo), "lookup", "C15/lookup/one", "object_for_predicate did not return the matching object");
                check!(ctx, matches!(&r4, Ok(Some(x)) if d32(&x.digest()) == wo), "lookup", "C15/lookup/one", "optional_object_for_predicate did not return the matching object");
            }
            _ => {
                check!(ctx, r1.is_err() && r2.is_err() && r3.is_err() && r4.is_err(), "lookup", "C15/lookup/ambiguous", "a single-result lookup succeeded although {} assertions match", wd.len());
            }
        }
        let wo: Vec<D32> = want_m.iter().map(|x| object_of(x).unwrap().digest()).collect();
        let go: Vec<D32> = r5.iter().map(|x| d32(&x.digest())).collect();
        check!(ctx, go == wo, "lookup", "C15/lookup/objects_for_predicate", "objects_for_predicate differs from the matching objects");
        // the plural typed lookup: all matching objects as T, or an error - never a subset
        {
            let r = nopanic!(ctx, e.extract_objects_for_predicate::<String>(probe.clone()), "lookup", "C15/lookup/extract-plural");
            let stored: Vec<Option<&Vec<u8>>> = want_m.iter().map(|a| object_of(a).and_then(|o| leaf_of(innermost_subject(o)))).collect();
            match r {
                Ok(vs) => {
                    let ok = vs.len() == stored.len() && vs.iter().zip(stored.iter()).all(|(v, st)| st.map(|b| *b == cbor::encode(&Item::T(v.clone()))).unwrap_or(false));
                    check!(ctx, ok, "lookup", "C15/lookup/extract-plural", "extract_objects_for_predicate::<String> returned {} values {:?} for {} matching assertions (every object as T, or an error)", vs.len(), vs, stored.len());
                }
                Err(_) => {
                    let all_text = !stored.is_empty() && stored.iter().all(|st| st.map(|b| b.first().map(|x| x >> 5 == 3).unwrap_or(false)).unwrap_or(false));
                    check!(ctx, !all_text, "lookup", "C15/lookup/extract-plural", "extract_objects_for_predicate::<String> failed although all {} matching objects are text leaves", stored.len());
                }
            }
        }
        // typed extraction through a lookup: never another value
        if wd.len() == 1 {
            let obj = object_of(want_m[0]).unwrap();
            let r = nopanic!(ctx, e.extract_object_for_predicate::<String>(probe.clone()), "lookup", "C15/lookup/extract");
            if let Ok(sv) = r {
                let ok = leaf_of(innermost_subject(obj)).map(|b| *b == cbor::encode(&Item::T(sv.clone()))).unwrap_or(false);
                check!(ctx, ok, "lookup", "C15/lookup/extract", "extract_object_for_predicate::<String> returned {:?}, which is not the stored object", sv);
            }
            // (continued below for every number of matches)
            // the conversion route through a lookup (the object itself must be the leaf)
            let own = leaf_of(obj);
            let r = nopanic!(ctx, e.try_object_for_predicate::<String>(probe.clone()), "lookup", "C15/lookup/try");
            if let Ok(sv) = r {
                check!(ctx, own.map(|b| *b == cbor::encode(&Item::T(sv.clone()))).unwrap_or(false), "lookup", "C15/lookup/try", "try_object_for_predicate::<String> returned {:?}, which is not the stored object {}", sv, obj.show());
            }
            let r = nopanic!(ctx, e.try_object_for_predicate::<i64>(probe.clone()), "lookup", "C15/lookup/try");
            if let Ok(v) = r {
                check!(ctx, own.map(|b| *b == cbor::encode(&int_item(v))).unwrap_or(false), "lookup", "C15/lookup/try", "try_object_for_predicate::<i64> returned {}, which is not the stored object {}", v, obj.show());
            }
            let r = nopanic!(ctx, e.try_optional_object_for_predicate::<f32>(probe.clone()), "lookup", "C15/lookup/try");
            if let Ok(Some(v)) = r {
                let ok = own.map(|b| *b == cbor::encode(&Item::F(v as f64))).unwrap_or(false);
                // integers extracted as floats: listed dependency findings (K4, K5), same keys as above
                let int_stored = own.and_then(|b| b.first()).map(|b| b >> 5 <= 1).unwrap_or(false);
                if !(int_stored && !ok) {
                    check!(ctx, ok, "lookup", "C15/lookup/try", "try_optional_object_for_predicate::<f32> returned {}, which is not the stored object {}", v, obj.show());
                }
            }
            let r = nopanic!(ctx, e.try_objects_for_predicate::<f64>(probe.clone()), "lookup", "C15/lookup/try");
            if let Ok(vs) = r {
                let ok = vs.len() == 1 && own.map(|b| *b == cbor::encode(&Item::F(vs[0]))).unwrap_or(false);
                let int_stored = own.and_then(|b| b.first()).map(|b| b >> 5 <= 1).unwrap_or(false);
                if !(int_stored && !ok) {
                    check!(ctx, ok, "lookup", "C15/lookup/try", "try_objects_for_predicate::<f64> returned {:?}, which is not the stored object {}", vs, obj.show());
                }
            }
        }
    }

    // --- typed extraction on every leaf-bearing element (subject position of each element)
    let els = e_elements(&e);
    for (el, em) in els.iter().zip(m_elements_lib_order(&m).iter()).take(40) {
        let leaf = leaf_of(em.subject_deep());
        typed!(ctx, el, leaf, String, "String", |v: String| Item::T(v));
        typed!(ctx, el, leaf, u8, "u8", |v: u8| Item::U(v as u64));
        typed!(ctx, el, leaf, u16, "u16", |v: u16| Item::U(v as u64));
        typed!(ctx, el, leaf, u32, "u32", |v: u32| Item::U(v as u64));
        typed!(ctx, el, leaf, u64, "u64", |v: u64| Item::U(v));
        typed!(ctx, el, leaf, usize, "usize", |v: usize| Item::U(v as u64));
        typed!(ctx, el, leaf, i8, "i8", |v: i8| int_item(v as i64));
        typed!(ctx, el, leaf, i16, "i16", |v: i16| int_item(v as i64));
        typed!(ctx, el, leaf, i32, "i32", |v: i32| int_item(v as i64));
        typed!(ctx, el, leaf, i64, "i64", |v: i64| int_item(v));
        typed!(ctx, el, leaf, f32, "f32", |v: f32| Item::F(v as f64));
        typed!(ctx, el, leaf, f64, "f64", |v: f64| Item::F(v));
        typed!(ctx, el, leaf, bool, "bool", |v: bool| if v { Item::True } else { Item::False });
        typed!(ctx, el, leaf, dcbor::ByteString, "ByteString", |v: dcbor::ByteString| Item::B(v.to_vec()));
        // the TryFrom<Envelope> conversions (try_as, try_object_for_predicate, ...) work on the element itself
        let own = leaf_of(em);
        typed!(@try_as ctx, el, own, String, "String", |v: String| Item::T(v));
        typed!(@try_as ctx, el, own, u8, "u8", |v: u8| Item::U(v as u64));
        typed!(@try_as ctx, el, own, u16, "u16", |v: u16| Item::U(v as u64));
        typed!(@try_as ctx, el, own, u32, "u32", |v: u32| Item::U(v as u64));
        typed!(@try_as ctx, el, own, u64, "u64", |v: u64| Item::U(v));
        typed!(@try_as ctx, el, own, usize, "usize", |v: usize| Item::U(v as u64));
        typed!(@try_as ctx, el, own, i8, "i8", |v: i8| int_item(v as i64));
        typed!(@try_as ctx, el, own, i16, "i16", |v: i16| int_item(v as i64));
        typed!(@try_as ctx, el, own, i32, "i32", |v: i32| int_item(v as i64));
        typed!(@try_as ctx, el, own, i64, "i64", |v: i64| int_item(v));
        typed!(@try_as ctx, el, own, f32, "f32", |v: f32| Item::F(v as f64));
        typed!(@try_as ctx, el, own, f64, "f64", |v: f64| Item::F(v));
        typed!(@try_as ctx, el, own, bool, "bool", |v: bool| if v { Item::True } else { Item::False });
        typed!(@try_as ctx, el, own, dcbor::ByteString, "ByteString", |v: dcbor::ByteString| Item::B(v.to_vec()));
        // the structural extraction types: what a wrapped / known-value / elided / assertion subject stores
        let inner = em.subject_deep();
        let r = nopanic!(ctx, el.extract_subject::<Envelope>(), "extract", "C15/extract/Envelope");
        if let Ok(v) = r {
            let ok = match inner {
                M::Wrapped(w) => v.to_cbor_data() == w.tagged(),
                M::Leaf(b) => v.to_cbor_data() == *b,
                _ => false,
            };
            check!(ctx, ok, "extract", "C15/extract/Envelope", "extract_subject::<Envelope>() on {} returned {}, which is not the envelope stored there", inner.show(), v.format_flat());
            ctx.class("extract-ok:Envelope");
        }
        let r = nopanic!(ctx, el.extract_subject::<KnownValue>(), "extract", "C15/extract/KnownValue");
        if let Ok(v) = r {
            let ok = match inner {
                M::Known(n) => v.value() == *n,
                M::Leaf(b) => v.tagged_cbor().to_cbor_data() == *b,
                _ => false,
            };
            check!(ctx, ok, "extract", "C15/extract/KnownValue", "extract_subject::<KnownValue>() on {} returned '{}'", inner.show(), v.value());
            ctx.class("extract-ok:KnownValue");
        }
        let r = nopanic!(ctx, el.extract_subject::<bc_components::Digest>(), "extract", "C15/extract/Digest");
        if let Ok(v) = r {
            let ok = match inner {
                M::Elided(d) => d32(&v) == *d,
                M::Leaf(b) => v.tagged_cbor().to_cbor_data() == *b,
                _ => false,
            };
            check!(ctx, ok, "extract", "C15/extract/Digest", "extract_subject::<Digest>() on {} returned {}", inner.show(), hex::encode(v.data()));
            ctx.class("extract-ok:Digest");
        }
        let r = nopanic!(ctx, el.extract_subject::<bc_envelope::Assertion>(), "extract", "C15/extract/Assertion");
        if let Ok(v) = r {
            let ok = match inner {
                M::Assertion(..) => d32(&v.digest()) == inner.digest() && d32(&v.predicate().digest()) == inner.children()[0].digest() && d32(&v.object().digest()) == inner.children()[1].digest(),
                M::Leaf(b) => CBOR::from(v.clone()).to_cbor_data() == *b,
                _ => false,
            };
            check!(ctx, ok, "extract", "C15/extract/Assertion", "extract_subject::<Assertion>() on {} returned another assertion", inner.show());
            ctx.class("extract-ok:Assertion");
        }
    }
    ctx.nontrivial = depth >= 2 && interesting;
    Outcome::Pass
}

fn innermost_subject(m: &M) -> &M {
    match m {
        M::Node(s, _) => innermost_subject(s),
        other => other,
    }
}

trait MExt {
    fn slot_valid_assertion(&self) -> bool;
    fn subject_deep(&self) -> &M;
}
impl MExt for M {
    fn slot_valid_assertion(&self) -> bool {
        matches!(innermost_subject(self), M::Assertion(..))
    }
    fn subject_deep(&self) -> &M {
        innermost_subject(self)
    }
}

/// Library elements in structure-walk order.
fn e_elements(e: &Envelope) -> Vec<Envelope> {
    let out: RefCell<Vec<Envelope>> = RefCell::new(Vec::new());
    let visitor = |env: Envelope, _l: usize, _e: EdgeType, _p: Option<()>| -> Option<()> {
        out.borrow_mut().push(env);
        None
    };
    e.walk(false, &visitor);
    out.into_inner()
}

/// Model elements in the same (library) order.
fn m_elements_lib_order(m: &M) -> Vec<&M> {
    let mut out = Vec::new();
    fn rec<'a>(m: &'a M, out: &mut Vec<&'a M>) {
        out.push(m);
        match m {
            M::Node(s, a) => {
                rec(s, out);
                for x in a {
                    rec(x, out);
                }
            }
            M::Wrapped(i) => rec(i, out),
            M::Assertion(p, o) => {
                rec(p, out);
                rec(o, out);
            }
            _ => {}
        }
    }
    rec(m, &mut out);
    out
}
