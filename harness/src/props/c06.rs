//! C06 — the decoder accepts only canonical well-formed envelopes and never crashes.

use crate::bridge::spec_model;
use crate::cbor::{self, RItem};
use crate::engine::{Ctx, Outcome, Prop};
use crate::gen::{self, GenCfg};
use crate::model::{self, Why};
use crate::src::Src;
use crate::{check, nopanic};
use bc_envelope::prelude::*;

pub const MAX_NESTING: usize = 64;

pub fn prop() -> Prop {
    Prop {
        id: "C06",
        run,
        max_len: 700,
        quick: 600_000,
        thorough: 6_000_000,
        rule: "four streams of byte strings: (1) valid encodings from the harness encoder; (2) structural mutants of valid encodings at the CBOR-item level, one or two of {swap / duplicate / drop an array element, truncate array to 0/1, append an element, retag (201->24, 200<->201, unknown), retype an element, digest of 31/33 bytes, assertion map with 0/2 entries, non-shortest head, indefinite-length container, unsorted/duplicate keys in a leaf map, non-canonical float/NaN, extra or missing element in an encrypted/compressed array, simple value}; (3) byte mutants (bit flip, insert, delete, splice, truncate); (4) random bytes, half of them behind a #6.200 head. oracle: try_from_cbor_data never panics (nesting <= 64); if it returns Ok(e) then e.to_cbor_data() equals the input except #6.24->#6.201 at leaf positions, the harness parser finds the input deterministic CBOR, and the harness recogniser accepts it (it rejects for exactly: node arity, non-assertion in slot, order, duplicate, unknown tag, digest length, assertion map size, non-envelope item). non-trivial: input parses as CBOR and is not byte-identical to an encoder output; distinct by FNV-64 of the input bytes; one repeated element in three is the element's elided digest (same digest, other form)",
        assumptions: &["the harness recogniser does not judge the interior of encrypted/compressed elements beyond their array shape; leniency there is caught by the re-encode comparison"],
        extra: None,
    }
}

fn candidates(r: &RItem, pred: &dyn Fn(&RItem) -> bool) -> Vec<usize> {
    fn rec(r: &RItem, pred: &dyn Fn(&RItem) -> bool, idx: &mut usize, out: &mut Vec<usize>) {
        if pred(r) {
            out.push(*idx);
        }
        *idx += 1;
        match r {
            RItem::A(xs, ..) => {
                for x in xs {
                    rec(x, pred, idx, out);
                }
            }
            RItem::M(es, ..) => {
                for (k, v) in es {
                    rec(k, pred, idx, out);
                    rec(v, pred, idx, out);
                }
            }
            RItem::Tag(_, _, i) => rec(i, pred, idx, out),
            _ => {}
        }
    }
    let mut out = Vec::new();
    rec(r, pred, &mut 0, &mut out);
    out
}

fn pick_node<'a>(root: &'a mut RItem, src: &mut Src, pred: &dyn Fn(&RItem) -> bool) -> Option<&'a mut RItem> {
    let c = candidates(root, pred);
    if c.is_empty() {
        return None;
    }
    let mut i = c[src.below(c.len())];
    root.nth_mut(&mut i)
}

fn junk(src: &mut Src) -> RItem {
    match src.below(9) {
        0 => RItem::U(src.below(300) as u64, 0),
        1 => RItem::T(b"x".to_vec(), 0),
        2 => RItem::A(vec![], 0, false),
        3 => RItem::M(vec![], 0, false),
        4 => RItem::Raw(vec![0xf5]),
        5 => RItem::N(3, 0),
        6 => RItem::Raw(vec![0xf9, 0x3e, 0x00]), // 1.5
        7 => RItem::B(src.bytes(32), 0),
        _ => RItem::Tag(201, 0, Box::new(RItem::T(b"j".to_vec(), 0))),
    }
}

pub const MUTATIONS: [&str; 22] = [
    "swap-array-elements",
    "duplicate-array-element",
    "drop-array-element",
    "truncate-array-0-1",
    "append-element",
    "retag-201-to-24",
    "retag-200-201",
    "retag-unknown",
    "retype-element",
    "digest-length",
    "assertion-map-0-2",
    "non-shortest-head",
    "indefinite-length",
    "map-keys-unsorted-or-dup",
    "non-canonical-float",
    "blob-array-extra",
    "blob-array-missing",
    "simple-value",
    "wrap-in-200",
    "swap-subject-and-assertion",
    "non-nfc-text",
    "replace-digest-bytes",
];

/// Apply mutation `k`; returns false when no applicable site exists.
fn mutate(root: &mut RItem, k: usize, src: &mut Src) -> bool {
    match MUTATIONS[k] {
        "swap-array-elements" => {
            if let Some(RItem::A(xs, ..)) = pick_node(root, src, &|r| matches!(r, RItem::A(xs, ..) if xs.len() >= 3)) {
                // keep the subject, swap two assertion elements (or any two in a leaf array)
                let i = 1 + src.below(xs.len() - 1);
                let mut j = 1 + src.below(xs.len() - 1);
                if i == j {
                    j = if i + 1 < xs.len() { i + 1 } else { 1 };
                }
                if xs[i] == xs[j] {
                    return false;
                }
                xs.swap(i, j);
                return true;
            }
            false
        }
        "duplicate-array-element" => {
            if let Some(RItem::A(xs, ..)) = pick_node(root, src, &|r| matches!(r, RItem::A(xs, ..) if xs.len() >= 2)) {
                let i = 1 + src.below(xs.len() - 1);
                let mut x = xs[i].clone();
                // one repeat in three is the same element in ANOTHER form: its elided digest (decided by the
                // element's bytes, no draw) - equal digests, different renditions
                let xb = cbor::emit(&x);
                if crate::src::fnv(&xb) % 3 == 0 {
                    let mut tagged = vec![0xd8, 0xc8];
                    tagged.extend(&xb);
                    if let Ok((r, _)) = crate::model::parse_tagged(&tagged) {
                        if !matches!(r.m, crate::model::M::Elided(_)) {
                            x = RItem::B(r.m.digest().to_vec(), 0);
                        }
                    }
                }
                // adjacent (keeps ascending order except for the repeat) or at the end
                if src.bool() {
                    xs.insert(i, x);
                } else {
                    xs.push(x);
                }
                return true;
            }
            false
        }
        "drop-array-element" => {
            if let Some(RItem::A(xs, ..)) = pick_node(root, src, &|r| matches!(r, RItem::A(xs, ..) if !xs.is_empty())) {
                let i = src.below(xs.len());
                xs.remove(i);
                return true;
            }
            false
        }
        "truncate-array-0-1" => {
            if let Some(RItem::A(xs, ..)) = pick_node(root, src, &|r| matches!(r, RItem::A(xs, ..) if xs.len() >= 2)) {
                xs.truncate(src.below(2));
                return true;
            }
            false
        }
        "append-element" => {
            if let Some(RItem::A(xs, ..)) = pick_node(root, src, &|r| matches!(r, RItem::A(..))) {
                let j = junk(src);
                xs.push(j);
                return true;
            }
            false
        }
        "retag-201-to-24" => {
            if let Some(RItem::Tag(t, ..)) = pick_node(root, src, &|r| matches!(r, RItem::Tag(201, ..))) {
                *t = 24;
                return true;
            }
            false
        }
        "retag-200-201" => {
            if let Some(RItem::Tag(t, ..)) = pick_node(root, src, &|r| matches!(r, RItem::Tag(200, ..) | RItem::Tag(201, ..))) {
                *t = if *t == 200 { 201 } else { 200 };
                return true;
            }
            false
        }
        "retag-unknown" => {
            if let Some(RItem::Tag(t, ..)) = pick_node(root, src, &|r| matches!(r, RItem::Tag(..))) {
                *t = *src.pick(&[0u64, 1, 23, 25, 199, 202, 40001, 40004, 65535, u64::MAX]);
                return true;
            }
            false
        }
        "retype-element" => {
            let n = root.count();
            let mut i = src.below(n);
            if let Some(r) = root.nth_mut(&mut i) {
                let j = junk(src);
                if *r == j {
                    return false;
                }
                *r = j;
                return true;
            }
            false
        }
        "digest-length" => {
            if let Some(RItem::B(b, _)) = pick_node(root, src, &|r| matches!(r, RItem::B(b, _) if b.len() == 32)) {
                if src.bool() {
                    b.pop();
                } else {
                    b.push(0);
                }
                return true;
            }
            false
        }
        "assertion-map-0-2" => {
            if let Some(RItem::M(es, ..)) = pick_node(root, src, &|r| matches!(r, RItem::M(es, ..) if es.len() == 1)) {
                if src.bool() {
                    es.clear();
                } else {
                    let extra = (RItem::Tag(201, 0, Box::new(RItem::T(b"k2".to_vec(), 0))), RItem::Tag(201, 0, Box::new(RItem::U(7, 0))));
                    es.push(extra);
                    // keep the pair in canonical key order so only the size is wrong
                    es.sort_by(|a, b| cbor::emit(&a.0).cmp(&cbor::emit(&b.0)));
                }
                return true;
            }
            false
        }
        "non-shortest-head" => {
            let n = root.count();
            let mut i = src.below(n);
            if let Some(r) = root.nth_mut(&mut i) {
                let w = 1 + src.below(2) as u8;
                match r {
                    RItem::U(v, x) | RItem::N(v, x) => {
                        if *v > 0xffff_ffff {
                            return false;
                        }
                        *x = w
                    }
                    RItem::Tag(v, x, _) => {
                        if *v > 0xffff_ffff {
                            return false;
                        }
                        *x = w
                    }
                    RItem::B(_, x) | RItem::T(_, x) | RItem::A(_, x, _) | RItem::M(_, x, _) => *x = w,
                    RItem::Raw(_) => return false,
                }
                return true;
            }
            false
        }
        "indefinite-length" => {
            if let Some(r) = pick_node(root, src, &|r| matches!(r, RItem::A(..) | RItem::M(..))) {
                match r {
                    RItem::A(_, _, ind) | RItem::M(_, _, ind) => *ind = true,
                    _ => {}
                }
                return true;
            }
            false
        }
        "map-keys-unsorted-or-dup" => {
            if let Some(RItem::M(es, ..)) = pick_node(root, src, &|r| matches!(r, RItem::M(es, ..) if es.len() >= 2)) {
                if src.bool() {
                    es.swap(0, 1);
                } else {
                    let e = es[0].clone();
                    es.insert(0, e);
                }
                return true;
            }
            false
        }
        "non-canonical-float" => {
            let n = root.count();
            let mut i = src.below(n);
            if let Some(r) = root.nth_mut(&mut i) {
                if matches!(r, RItem::A(..) | RItem::M(..) | RItem::Tag(..)) {
                    return false;
                }
                let alts: [&[u8]; 10] = [
                    &[0xfa, 0x3f, 0xc0, 0x00, 0x00],                         // 1.5 as f32
                    &[0xfb, 0x3f, 0xf8, 0, 0, 0, 0, 0, 0],                   // 1.5 as f64
                    &[0xf9, 0x42, 0x00],                                     // 3.0 as f16
                    &[0xfa, 0x40, 0x40, 0x00, 0x00],                         // 3.0 as f32
                    &[0xf9, 0x7e, 0x01],                                     // NaN with payload
                    &[0xfa, 0x7f, 0xc0, 0x00, 0x00],                         // NaN f32
                    &[0xfb, 0x7f, 0xf8, 0, 0, 0, 0, 0, 0],                   // NaN f64
                    &[0xfa, 0x4f, 0x80, 0x00, 0x00],                         // 2^32 as f32
                    &[0xfb, 0x43, 0xe0, 0, 0, 0, 0, 0, 0],                   // 2^63 as f64
                    &[0xf9, 0x80, 0x00],                                     // -0.0
                ];
                *r = RItem::Raw(alts[src.below(alts.len())].to_vec());
                return true;
            }
            false
        }
        "blob-array-extra" | "blob-array-missing" => {
            let extra = MUTATIONS[k] == "blob-array-extra";
            if let Some(RItem::Tag(_, _, inner)) = pick_node(root, src, &|r| matches!(r, RItem::Tag(40002, ..) | RItem::Tag(40003, ..))) {
                if let RItem::A(xs, ..) = &mut **inner {
                    if extra {
                        let j = if src.bool() { RItem::B(vec![], 0) } else { junk(src) };
                        xs.push(j);
                    } else if !xs.is_empty() {
                        xs.pop();
                    }
                    return true;
                }
            }
            false
        }
        "simple-value" => {
            let n = root.count();
            let mut i = src.below(n);
            if let Some(r) = root.nth_mut(&mut i) {
                if matches!(r, RItem::A(..) | RItem::M(..) | RItem::Tag(..)) {
                    return false;
                }
                let alts: [&[u8]; 5] = [&[0xf7], &[0xe0], &[0xf8, 0x20], &[0xf8, 0xff], &[0xf3]];
                *r = RItem::Raw(alts[src.below(alts.len())].to_vec());
                return true;
            }
            false
        }
        "wrap-in-200" => {
            let n = root.count();
            let mut i = src.below(n);
            if let Some(r) = root.nth_mut(&mut i) {
                let old = r.clone();
                *r = RItem::Tag(200, 0, Box::new(old));
                return true;
            }
            false
        }
        "swap-subject-and-assertion" => {
            if let Some(RItem::A(xs, ..)) = pick_node(root, src, &|r| matches!(r, RItem::A(xs, ..) if xs.len() >= 2)) {
                let j = 1 + src.below(xs.len() - 1);
                if xs[0] == xs[j] {
                    return false;
                }
                xs.swap(0, j);
                return true;
            }
            false
        }
        "non-nfc-text" => {
            if let Some(RItem::T(b, _)) = pick_node(root, src, &|r| matches!(r, RItem::T(..))) {
                // "e" + combining acute: valid UTF-8, not NFC
                *b = vec![0x65, 0xcc, 0x81];
                return true;
            }
            false
        }
        "replace-digest-bytes" => {
            if let Some(RItem::B(b, _)) = pick_node(root, src, &|r| matches!(r, RItem::B(b, _) if b.len() == 32)) {
                let i = src.below(32);
                b[i] ^= 1 << src.below(8);
                return true;
            }
            false
        }
        _ => false,
    }
}

fn valid_bytes(src: &mut Src) -> Vec<u8> {
    let mut cfg = GenCfg::new(4, 30);
    let spec = gen::gen_spec(src, &mut cfg);
    spec_model(&spec).tagged()
}

pub fn gen_input(src: &mut Src, ctx: &mut Ctx) -> (Vec<u8>, bool) {
    // returns (bytes, is_pristine_encoder_output)
    match src.weighted(&[15, 45, 28, 12]) {
        0 => {
            ctx.class("stream:valid");
            (valid_bytes(src), true)
        }
        1 => {
            ctx.class("stream:structural");
            let v = valid_bytes(src);
            let p = cbor::parse(&v).expect("harness encoder output parses");
            let mut raw = cbor::to_raw(&v, &p.root);
            let n = 1 + src.chance(64) as usize;
            let mut applied = 0;
            for _ in 0..n {
                // try a few kinds until one applies
                for _ in 0..4 {
                    let k = src.below(MUTATIONS.len());
                    if mutate(&mut raw, k, src) {
                        ctx.class(&format!("mut:{}", MUTATIONS[k]));
                        applied += 1;
                        break;
                    }
                }
            }
            let out = cbor::emit(&raw);
            let pristine = applied == 0 || out == v;
            (out, pristine)
        }
        2 => {
            ctx.class("stream:byte-mutant");
            let mut v = valid_bytes(src);
            let orig = v.clone();
            let n = 1 + src.below(3);
            for _ in 0..n {
                if v.is_empty() {
                    break;
                }
                match src.below(5) {
                    0 => {
                        let i = src.below(v.len());
                        v[i] ^= 1 << src.below(8);
                    }
                    1 => {
                        let i = src.below(v.len() + 1);
                        v.insert(i, src.byte());
                    }
                    2 => {
                        let i = src.below(v.len());
                        v.remove(i);
                    }
                    3 => {
                        let i = src.below(v.len());
                        let j = src.below(v.len());
                        let (a, b) = (i.min(j), i.max(j));
                        let seg: Vec<u8> = v[a..b].to_vec();
                        let at = src.below(v.len() + 1);
                        for (o, x) in seg.into_iter().enumerate() {
                            v.insert((at + o).min(v.len()), x);
                        }
                    }
                    _ => {
                        let i = src.below(v.len());
                        v.truncate(i);
                    }
                }
            }
            let pristine = v == orig;
            (v, pristine)
        }
        _ => {
            ctx.class("stream:random");
            let n = src.below(80);
            let mut v = Vec::new();
            if src.bool() {
                v.extend_from_slice(&[0xd8, 0xc8]);
            }
            v.extend(src.bytes(n));
            (v, false)
        }
    }
}

/// The oracle, shared with the libFuzzer `decode` target.
pub fn judge_decode(bytes: &[u8], ctx: &mut Ctx) -> Outcome {
    let parsed = model::parse_tagged(bytes);
    // bounded nesting only
    match &parsed {
        Ok((_, p)) if p.max_depth > MAX_NESTING => {
            ctx.class("skipped:nesting>64");
            return Outcome::Reject;
        }
        Err(Why::NotCbor(cbor::ParseError::TooDeep)) => {
            ctx.class("skipped:nesting>64");
            return Outcome::Reject;
        }
        _ => {}
    }
    if let Err(Why::NotCbor(_)) = &parsed {
        // might still be deeply nested garbage: cheap pre-scan of array/map/tag heads
        let mut depth = 0usize;
        for b in bytes {
            let major = b >> 5;
            if major == 4 || major == 5 || major == 6 {
                depth += 1;
            }
        }
        if depth > 400 {
            ctx.class("skipped:nesting>64");
            return Outcome::Reject;
        }
    }
    let r = nopanic!(ctx, Envelope::try_from_cbor_data(bytes.to_vec()), "decode", "C06/decode");
    match r {
        Err(_) => {
            ctx.class("rejected-by-library");
            // Nothing is demanded of rejected inputs — except that a pristine valid encoding must be accepted,
            // which the caller checks.
            Outcome::Pass
        }
        Ok(e) => {
            ctx.class("accepted-by-library");
            let re = nopanic!(ctx, e.to_cbor_data(), "re-encode", "C06/re-encode");
            // non-deterministic CBOR first: an accepted non-canonical number is re-encoded (and hashed) in
            // its reduced form, which can make the recogniser see "out of order" as a mere consequence
            if let Ok(p) = cbor::parse(bytes) {
                check!(ctx, p.noncanonical.is_empty(), "accepts-noncanonical", &format!("C06/noncanonical-accepted/{}", p.noncanonical.first().unwrap_or(&"")), "decoder accepted non-deterministic CBOR ({:?}): {}", p.noncanonical, hex::encode(bytes));
            }
            match parsed {
                Ok((rec, p)) => {
                    // (i) re-encoding equals the input modulo #6.24 -> #6.201
                    let mut expect = bytes.to_vec();
                    for pos in &rec.legacy_leaf_positions {
                        // head of tag 24 is the single byte 0xd8 0x18; tag 201 is 0xd8 0xc9
                        if expect.get(*pos) == Some(&0xd8) && expect.get(*pos + 1) == Some(&0x18) {
                            expect[*pos + 1] = 0xc9;
                        }
                    }
                    if !rec.legacy_leaf_positions.is_empty() {
                        ctx.class("legacy-leaf-tag");
                    }
                    check!(ctx, p.noncanonical.is_empty(), "accepts-noncanonical", &format!("C06/noncanonical-accepted/{}", p.noncanonical.first().unwrap_or(&"")), "decoder accepted non-deterministic CBOR ({:?}): {}", p.noncanonical, hex::encode(bytes));
                    check!(ctx, re == expect, "re-encode", "C06/re-encode/differs", "decoder accepted {} but re-encodes it as {}", hex::encode(bytes), hex::encode(&re));
                    Outcome::Pass
                }
                Err(why) => {
                    let key = match &why {
                        Why::NotCbor(e) => format!("C06/accepts/not-cbor-{:?}", e),
                        Why::NotTaggedEnvelope => "C06/accepts/not-tagged-envelope".to_string(),
                        Why::NodeArity => "C06/accepts/node-arity".to_string(),
                        Why::SlotInvalid => "C06/accepts/non-assertion-in-slot".to_string(),
                        Why::Order => "C06/accepts/out-of-order".to_string(),
                        Why::Duplicate => "C06/accepts/duplicate-digest".to_string(),
                        Why::UnknownTag(_) => "C06/accepts/unknown-tag".to_string(),
                        Why::DigestLength => "C06/accepts/digest-length".to_string(),
                        Why::AssertionMap => "C06/accepts/assertion-map-size".to_string(),
                        Why::BadType => "C06/accepts/non-envelope-item".to_string(),
                        Why::EncryptedShape | Why::CompressedShape | Why::MissingDigest => {
                            // interior of a blob: judged by the re-encode comparison only
                            check!(ctx, re == bytes, "re-encode", "C06/re-encode/blob", "decoder accepted {} (blob shape {:?}) but re-encodes it as {}", hex::encode(bytes), why, hex::encode(&re));
                            return Outcome::Pass;
                        }
                    };
                    check!(ctx, false, "accepts-malformed", &key, "decoder accepted an input the envelope grammar rejects ({:?}): {} -> re-encoded {}", why, hex::encode(bytes), hex::encode(&re));
                    Outcome::Pass
                }
            }
        }
    }
}

pub fn run(data: &[u8], ctx: &mut Ctx) -> Outcome {
    let mut src = Src::new(data);
    let (bytes, pristine) = gen_input(&mut src, ctx);
    ctx.fingerprint(&bytes);
    ctx.sample_with(|| cbor::diag_bytes(&bytes));
    let before_accept = ctx.classes.get("accepted-by-library").cloned().unwrap_or(0);
    match judge_decode(&bytes, ctx) {
        Outcome::Pass => {}
        other => return other,
    }
    let accepted = ctx.classes.get("accepted-by-library").cloned().unwrap_or(0) > before_accept;
    if pristine {
        check!(ctx, accepted, "valid-rejected", "C06/valid-rejected", "decoder rejected a valid encoding: {}", hex::encode(&bytes));
    }
    ctx.nontrivial = !pristine && cbor::parse(&bytes).is_ok();
    Outcome::Pass
}
