//! C11 — SSKR shares reconstruct the envelope exactly when a quorum is present.

use crate::bridge::{self, build_a, spec_model};
use crate::engine::{Ctx, Outcome, Prop};
use crate::gen::{self, GenCfg};
use crate::model::M;
use crate::src::Src;
use crate::{check, nopanic, tryp};
use bc_components::{DigestProvider, SSKRGroupSpec, SSKRSpec, SymmetricKey};
use bc_envelope::prelude::*;
use bc_rand::SeededRandomNumberGenerator;

pub fn prop() -> Prop {
    Prop {
        id: "C11",
        run,
        max_len: 300,
        quick: 6_000,
        thorough: 60_000,
        rule: "choice sequence -> envelope (wrapped-and-encrypted, or subject-encrypted with its assertions left in place) x 32-byte content key x SSKR policy (1-3 groups, 1-4 members each, member threshold 1..count, group threshold 1..groups; thorough: up to 4 groups / 5 members, at most 12 shares) x split through sskr_split_using with a seeded RNG x EVERY non-empty subset of the shares (exhaustive per policy, <= 4095, in generated order); plus subsets mixed from two different splits (another key, or the same envelope split twice). oracle: quorum(model) = #{groups with >= member-threshold shares present} >= group threshold; sskr_join(subset) is Ok iff quorum and then byte-identical to the decrypted original subject; otherwise Err; never a panic; mixed subsets: Err or the original of one of the two splits; every share envelope has an encrypted subject with the original subject's digest and exactly one extra 'sskrShare' assertion. non-trivial: a policy with >= 1 subset exactly at the quorum boundary and one just below it; distinct by FNV-64 of (encoding, policy); share envelopes as holders keep them: merged into one, merged in pairs, 'sskrShare' assertions salted or annotated - outcome = quorum rule over the shares present; sskr_split / sskr_split_flattened follow the policy; a damaged share object gives an error or the original, never a panic; a forged encrypted subject (other content under the declared digest) never joins to that content; truncated share objects; later share envelopes with their subject elided",
        assumptions: &["exhaustive: true refers to the subset enumeration per generated policy, not to policies or envelopes", "bc-shamir / sskr split is correct for the shares themselves"],
        extra: None,
    }
}

pub fn run(data: &[u8], ctx: &mut Ctx) -> Outcome {
    let mut src = Src::new(data);
    // policy
    let (max_groups, max_members) = if ctx.tier_thorough { (4, 5) } else { (3, 4) };
    let mut groups: Vec<(usize, usize)> = Vec::new(); // (threshold, count)
    // "wide" class: one or two groups, one of them with 9-16 members (SSKR allows 16); subsets are then
    // sampled around the quorum boundary instead of enumerated
    let wide = src.chance(40);
    if wide {
        let count = 9 + src.below(8);
        groups.push((2 + src.below(2), count));
        if src.bool() {
            groups.push((1, 1 + src.below(2)));
        }
    }
    let g = if wide { 0 } else { 1 + src.below(max_groups) };
    let mut total = 0;
    for _ in 0..g {
        let count = 1 + src.below(max_members);
        if total + count > 12 {
            break;
        }
        let _ = wide;
        total += count;
        let thr = 1 + src.below(count);
        groups.push((thr, count));
    }
    if groups.is_empty() {
        groups.push((1, 1));
    }
    let group_threshold = 1 + src.below(groups.len());
    let mut cfg = GenCfg::new(3, 12);
    cfg.obscured = src.chance(64);
    let spec = gen::gen_spec(&mut src, &mut cfg);
    let model = spec_model(&spec);
    let e = nopanic!(ctx, build_a(&spec, &mut src), "build", "C11/build");
    let ck = SymmetricKey::from_data_ref(src.bytes(32)).unwrap();
    let wrapped_form = !src.chance(64);

    let policy = format!("{}-of-{} groups {:?}", group_threshold, groups.len(), groups);
    ctx.fingerprint(&model.tagged());
    ctx.fingerprint(policy.as_bytes());
    ctx.sample_with(|| format!("{} ({}) policy {}", model.show(), if wrapped_form { "wrapped" } else { "subject-only" }, policy));
    ctx.class(&format!("groups={}", groups.len()));

    let to_encrypt = if wrapped_form { e.wrap_envelope() } else { e.clone() };
    let tm = tryp!(ctx, bridge::read_out(&to_encrypt), "readout", "C11/readout");
    if matches!(tm.subject(), M::Encrypted(..) | M::Elided(_)) {
        ctx.class("subject-not-encryptable");
        return Outcome::Pass;
    }
    // a generated envelope may itself carry 'sskrShare' assertions with arbitrary objects
    if tm.assertions().iter().any(|a| matches!(a.subject(), M::Assertion(p, _) if p.digest() == M::Known(6).digest())) {
        ctx.class("base-has-bogus-sskrShare");
        return Outcome::Pass;
    }
    let encrypted = nopanic!(ctx, to_encrypt.encrypt_subject(&ck), "encrypt", "C11/encrypt");
    let encrypted = tryp!(ctx, encrypted.map_err(|x| x.to_string()), "encrypt", "C11/encrypt");
    let expected_subject_bytes = to_encrypt.subject().to_cbor_data();

    let gs: Vec<SSKRGroupSpec> = groups.iter().map(|(t, c)| SSKRGroupSpec::new(*t, *c).unwrap()).collect();
    let sskr_spec = match SSKRSpec::new(group_threshold, gs) {
        Ok(s) => s,
        Err(_) => return Outcome::Reject,
    };
    let mut rng = SeededRandomNumberGenerator::new([src.u64() | 1, src.u64(), 3, 4]);
    let shares = nopanic!(ctx, encrypted.sskr_split_using(&sskr_spec, &ck, &mut rng), "split", "C11/split");
    let shares = tryp!(ctx, shares.map_err(|x| format!("sskr_split failed for {}: {}", policy, x)), "split", "C11/split");
    check!(ctx, shares.len() == groups.len() && shares.iter().zip(groups.iter()).all(|(s, g)| s.len() == g.1), "split", "C11/split", "share layout does not match the policy {}", policy);

    // every share: digest-preserving encrypted subject + exactly one sskrShare assertion
    let em = tryp!(ctx, bridge::read_out(&encrypted), "readout", "C11/readout");
    let mut flat: Vec<(usize, Envelope)> = Vec::new();
    for (gi, grp) in shares.iter().enumerate() {
        for s in grp {
            let sm = tryp!(ctx, bridge::read_out(s), "readout", "C11/readout");
            check!(ctx, matches!(sm.subject(), M::Encrypted(..)) && sm.subject().digest() == tm.subject().digest(), "share", "C11/share", "share envelope's subject is not the digest-preserving encrypted subject of the original");
            let old: std::collections::BTreeSet<_> = em.assertions().iter().map(|a| a.digest()).collect();
            let new: Vec<&M> = sm.assertions().iter().filter(|a| !old.contains(&a.digest())).collect();
            check!(ctx, new.len() == 1 && matches!(new[0], M::Assertion(p, _) if **p == M::Known(6)) && sm.assertions().len() == em.assertions().len() + 1, "share", "C11/share", "share envelope is not the encrypted envelope plus one 'sskrShare' assertion");
            flat.push((gi, s.clone()));
        }
    }

    // exhaustive subsets
    let n = flat.len();
    let mut at_boundary = 0u64;
    let mut below_boundary = 0u64;
    let mut joins = 0u64;
    let masks: Vec<u32> = if n <= 12 {
        (1u32..(1u32 << n)).collect()
    } else {
        // sampled: every single share, every pair, 300 generated subsets of size <= 4, and the full set
        ctx.class("wide-group(sampled subsets)");
        let mut v: Vec<u32> = Vec::new();
        for i in 0..n {
            v.push(1 << i);
            for j in i + 1..n {
                v.push((1 << i) | (1 << j));
            }
        }
        for _ in 0..300 {
            let mut mk = 0u32;
            for _ in 0..1 + src.below(4) {
                mk |= 1 << src.below(n);
            }
            v.push(mk);
        }
        v.push((1u32 << n) - 1);
        v
    };
    for mask in masks {
        let mut present = vec![0usize; groups.len()];
        let mut subset: Vec<&Envelope> = Vec::new();
        for i in 0..n {
            if mask & (1 << i) != 0 {
                present[flat[i].0] += 1;
                subset.push(&flat[i].1);
            }
        }
        // generated presentation order: rotate by a mask-dependent amount
        let rot = (mask as usize * 7 + src.consumed()) % subset.len();
        subset.rotate_left(rot);
        let satisfied = present.iter().zip(groups.iter()).filter(|(p, g)| **p >= g.0).count();
        let quorum = satisfied >= group_threshold;
        // boundary classes: removing any one share breaks the quorum / adding one would reach it
        let r = nopanic!(ctx, Envelope::sskr_join(&subset), "join", "C11/join");
        joins += 1;
        match r {
            Ok(j) => {
                check!(ctx, quorum, "join", "C11/join/without-quorum", "sskr_join succeeded without a quorum: policy {}, present per group {:?}", policy, present);
                check!(ctx, j.to_cbor_data() == expected_subject_bytes, "join", "C11/join/different-envelope", "sskr_join returned something other than the decrypted original subject (policy {}, present {:?})", policy, present);
            }
            Err(err) => {
                check!(ctx, !quorum, "join", "C11/join/quorum-fails", "sskr_join failed although the subset satisfies the policy {}: present per group {:?}: {}", policy, present, err);
            }
        }
        // boundary classes: a quorum that one removed share would break / a non-quorum that one more share completes
        let sat = |p: &Vec<usize>| p.iter().zip(groups.iter()).filter(|(p, g)| **p >= g.0).count() >= group_threshold;
        if quorum {
            let mut fragile = false;
            for gi in 0..groups.len() {
                if present[gi] > 0 {
                    let mut p2 = present.clone();
                    p2[gi] -= 1;
                    if !sat(&p2) {
                        fragile = true;
                    }
                }
            }
            if fragile {
                at_boundary += 1;
            }
        } else {
            let mut almost = false;
            for gi in 0..groups.len() {
                if present[gi] < groups[gi].1 {
                    let mut p2 = present.clone();
                    p2[gi] += 1;
                    if sat(&p2) {
                        almost = true;
                    }
                }
            }
            if almost {
                below_boundary += 1;
            }
        }
    }
    ctx.count("joins", joins);
    ctx.count("subsets-at-quorum-boundary", at_boundary);
    ctx.count("subsets-one-below-quorum", below_boundary);
    if n <= 12 {
        ctx.class("exhaustive-subsets");
    }
    if wrapped_form {
        // the documented flow: join, then unwrap, gives the original
        let all: Vec<&Envelope> = flat.iter().map(|x| &x.1).collect();
        let j = nopanic!(ctx, Envelope::sskr_join(&all), "join", "C11/join");
        let j = tryp!(ctx, j.map_err(|x| x.to_string()), "join", "C11/join/quorum-fails");
        let u = nopanic!(ctx, j.unwrap_envelope(), "join", "C11/join");
        let u = tryp!(ctx, u.map_err(|x| x.to_string()), "join", "C11/join");
        check!(ctx, u.to_cbor_data() == e.to_cbor_data() && u.is_identical_to(&e), "join", "C11/join/different-envelope", "join + unwrap is not identical to the original");
    }

    // the other split forms: sskr_split (OS randomness) and sskr_split_flattened follow the same policy
    {
        let again = nopanic!(ctx, encrypted.sskr_split(&sskr_spec, &ck), "split", "C11/split/forms");
        let again = tryp!(ctx, again.map_err(|x| x.to_string()), "split", "C11/split/forms");
        check!(ctx, again.len() == groups.len() && again.iter().zip(groups.iter()).all(|(s, g)| s.len() == g.1), "split", "C11/split/forms", "sskr_split: share layout does not match the policy {}", policy);
        let flat2 = nopanic!(ctx, encrypted.sskr_split_flattened(&sskr_spec, &ck), "split", "C11/split/forms");
        let flat2 = tryp!(ctx, flat2.map_err(|x| x.to_string()), "split", "C11/split/forms");
        check!(ctx, flat2.len() == n, "split", "C11/split/forms", "sskr_split_flattened returned {} share envelopes, the policy has {} members", flat2.len(), n);
        for set in [again.iter().flatten().collect::<Vec<&Envelope>>(), flat2.iter().collect::<Vec<&Envelope>>()] {
            let j = nopanic!(ctx, Envelope::sskr_join(&set), "split", "C11/split/forms");
            let j = tryp!(ctx, j.map_err(|x| format!("all shares of a fresh split do not join: {}", x)), "split", "C11/split/forms");
            check!(ctx, j.to_cbor_data() == expected_subject_bytes, "split", "C11/split/forms", "joining all shares of a fresh split does not return the original subject");
        }
    }

    // empty input
    let r = nopanic!(ctx, Envelope::sskr_join(&[]), "join", "C11/join");
    check!(ctx, r.is_err(), "join", "C11/join", "sskr_join of no shares succeeded");

    // mixed from two splits
    let second_same_key = src.bool();
    let ck2 = if second_same_key { ck.clone() } else { SymmetricKey::from_data_ref(src.bytes(32)).unwrap() };
    let other_env = if second_same_key { to_encrypt.clone() } else { Envelope::new("another secret").wrap_envelope() };
    let enc2 = nopanic!(ctx, other_env.encrypt_subject(&ck2), "mixed", "C11/mixed");
    if let Ok(enc2) = enc2 {
        let mut rng2 = SeededRandomNumberGenerator::new([src.u64() | 1, 99, 3, 4]);
        if let Ok(shares2) = enc2.sskr_split_using(&sskr_spec, &ck2, &mut rng2) {
            let flat2: Vec<(usize, Envelope)> = shares2.into_iter().enumerate().flat_map(|(gi, g)| g.into_iter().map(move |s| (gi, s))).collect();
            let other_bytes = other_env.subject().to_cbor_data();
            // the two splits must be told apart by their 16-bit identifier; a collision (1 in 65536) is skipped
            let ident = |e: &Envelope| -> Option<u16> {
                e.assertions_with_predicate(bc_envelope::known_values::SSKR_SHARE).first().and_then(|a| a.subject().as_object()).and_then(|o| o.extract_subject::<bc_components::SSKRShare>().ok()).map(|s| s.identifier())
            };
            let collide = ident(&flat[0].1) == ident(&flat2[0].1);
            for _ in 0..8 {
                if collide {
                    break;
                }
                // (split, group, envelope) in generated presentation order
                let mut subset: Vec<(usize, usize, &Envelope)> = Vec::new();
                for (g, s) in &flat {
                    if src.bool() {
                        subset.push((0, *g, s));
                    }
                }
                for (g, s) in &flat2 {
                    if src.bool() {
                        subset.push((1, *g, s));
                    }
                }
                if subset.is_empty() {
                    continue;
                }
                // interleave: generated permutation
                for i in 0..subset.len() {
                    let j = i + src.below(subset.len() - i);
                    subset.swap(i, j);
                }
                let quorum_of = |split: usize| -> bool {
                    let mut present = vec![0usize; groups.len()];
                    for (sp, g, _) in &subset {
                        if *sp == split {
                            present[*g] += 1;
                        }
                    }
                    present.iter().zip(groups.iter()).filter(|(p, g)| **p >= g.0).count() >= group_threshold
                };
                let first_split = subset[0].0;
                // the recovered key must open the FIRST envelope's subject: with one shared content key
                // either split's quorum does, otherwise only the quorum of the first envelope's own split
                let want_ok = if second_same_key { quorum_of(0) || quorum_of(1) } else { quorum_of(first_split) };
                let refs: Vec<&Envelope> = subset.iter().map(|x| x.2).collect();
                let r = nopanic!(ctx, Envelope::sskr_join(&refs), "mixed", "C11/mixed");
                match r {
                    Ok(j) => {
                        let b = j.to_cbor_data();
                        check!(ctx, b == expected_subject_bytes || b == other_bytes, "mixed", "C11/mixed/different-envelope", "joining shares mixed from two splits returned an envelope that is neither original");
                        let want_bytes = if first_split == 0 { &expected_subject_bytes } else { &other_bytes };
                        check!(ctx, &b == want_bytes, "mixed", "C11/mixed/different-envelope", "joining shares mixed from two splits returned the other split's original, not the one the first share envelope belongs to");
                        check!(ctx, want_ok, "mixed", "C11/mixed/without-quorum", "joining shares mixed from two splits succeeded although no split whose key opens the first envelope has a quorum");
                    }
                    Err(err) => {
                        check!(ctx, !want_ok, "mixed", "C11/mixed/quorum-fails", "joining shares mixed from two splits failed although split {} has a quorum among them (presentation order {:?}): {}", if quorum_of(first_split) { first_split } else { 1 - first_split }, subset.iter().map(|x| (x.0, x.1)).collect::<Vec<_>>(), err);
                    }
                }
                ctx.class("mixed-subset");
            }
        }
    }
    // --- share envelopes as their holders may keep them (drawn last): two or more shares merged into one
    // envelope, and 'sskrShare' assertions that carry a salt or a holder's note. The shares are the same,
    // so the outcome is the quorum rule over the shares present.
    if src.chance(80) && n <= 12 {
        let share_assertion = |e: &Envelope| -> Option<Envelope> { e.assertions_with_predicate(bc_envelope::known_values::SSKR_SHARE).first().cloned() };
        for round in 0..4 {
            // a generated subset
            let mut subset: Vec<usize> = (0..n).filter(|_| src.bool()).collect();
            if subset.is_empty() {
                subset.push(src.below(n));
            }
            let mut present = vec![0usize; groups.len()];
            for i in &subset {
                present[flat[*i].0] += 1;
            }
            let want_ok = present.iter().zip(groups.iter()).filter(|(p, g)| **p >= g.0).count() >= group_threshold;
            let style = src.below(4);
            let held: Vec<Envelope> = match style {
                3 => {
                    // every share envelope but the first with its (encrypted) subject elided by the holder: the
                    // share is still readable, the digest unchanged; only the first envelope gets decrypted
                    subset.iter().enumerate().map(|(k, i)| if k == 0 { flat[*i].1.clone() } else { flat[*i].1.elide_removing_target(&flat[*i].1.subject()) }).collect()
                }
                0 => {
                    // merged: every share of the subset carried by ONE envelope (the first one)
                    let mut carrier = flat[subset[0]].1.clone();
                    for i in &subset[1..] {
                        if let Some(a) = share_assertion(&flat[*i].1) {
                            carrier = carrier.add_assertion_envelope(a).unwrap();
                        }
                    }
                    vec![carrier]
                }
                1 => {
                    // pairs merged two by two
                    subset
                        .chunks(2)
                        .map(|c| {
                            let mut carrier = flat[c[0]].1.clone();
                            if c.len() == 2 {
                                if let Some(a) = share_assertion(&flat[c[1]].1) {
                                    carrier = carrier.add_assertion_envelope(a).unwrap();
                                }
                            }
                            carrier
                        })
                        .collect()
                }
                _ => {
                    // every 'sskrShare' assertion decorated: salted, or with a holder's note
                    subset
                        .iter()
                        .map(|i| {
                            let s = &flat[*i].1;
                            match share_assertion(s) {
                                Some(a) => {
                                    let decorated = if *i % 2 == 0 { a.add_salt() } else { a.add_assertion("heldBy", format!("holder {}", i)) };
                                    s.replace_assertion(a, decorated).unwrap()
                                }
                                None => s.clone(),
                            }
                        })
                        .collect()
                }
            };
            let sname = ["merged-into-one", "merged-in-pairs", "decorated-share-assertions", "later-subjects-elided"][style];
            ctx.class(&format!("held:{}:{}", sname, if want_ok { "quorum" } else { "no-quorum" }));
            let refs: Vec<&Envelope> = held.iter().collect();
            let r = nopanic!(ctx, Envelope::sskr_join(&refs), "held", "C11/held");
            match r {
                Ok(j) => {
                    check!(ctx, want_ok, "held", "C11/held/without-quorum", "join of {} share envelopes succeeded without a quorum (policy {}, shares of groups {:?})", sname, policy, present);
                    check!(ctx, j.to_cbor_data() == expected_subject_bytes, "held", "C11/held/different-envelope", "join of {} share envelopes returned something other than the original subject", sname);
                }
                Err(err) => {
                    check!(ctx, !want_ok, "held", "C11/held/quorum-fails", "join of {} share envelopes failed although the shares present satisfy the policy {} (per group {:?}): {}", sname, policy, present, err);
                }
            }
            let _ = round;
        }
    }
    // --- drawn last: (a) a share envelope whose share OBJECT a holder has obscured or replaced: the join
    // must answer with an error or the original, never panic; (b) a key holder's forgery: an encrypted
    // subject that declares the original's digest but holds other content, split under the same policy:
    // a quorum must not hand out that content ("never returns a different envelope")
    if src.chance(70) && n <= 12 {
        let all: Vec<&Envelope> = flat.iter().map(|x| &x.1).collect();
        let vi = src.below(n);
        let victim = &flat[vi].1;
        if let Some(a) = victim.assertions_with_predicate(bc_envelope::known_values::SSKR_SHARE).first().cloned() {
            let obj = a.as_object().unwrap();
            let damaged = match src.below(5) {
                0 => victim.elide_removing_target(&obj),
                1 => victim.elide_removing_target_with_action(&obj, &ObscureAction::Compress),
                2 => victim.replace_assertion(a.clone(), Envelope::new_assertion(bc_envelope::known_values::SSKR_SHARE, "not a share")).unwrap_or(victim.clone()),
                // a share object of the right type but truncated to 0-3 bytes
                k => victim.replace_assertion(a.clone(), Envelope::new_assertion(bc_envelope::known_values::SSKR_SHARE, bc_components::SSKRShare::from_data(vec![7u8; if k == 3 { 1 } else { (vi % 4) as usize }]))).unwrap_or(victim.clone()),
            };
            ctx.class("damaged-share-object");
            for list in [vec![&damaged], { let mut v = all.clone(); v[vi] = &damaged; v }, { let mut v = vec![&damaged]; v.extend(all.iter().enumerate().filter(|(i, _)| *i != vi).map(|(_, x)| *x)); v }] {
                let r = nopanic!(ctx, Envelope::sskr_join(&list), "damaged", "C11/damaged-share");
                if let Ok(j) = r {
                    check!(ctx, j.to_cbor_data() == expected_subject_bytes, "damaged", "C11/damaged-share/different-envelope", "join with a damaged share envelope returned something other than the original subject");
                }
            }
        }
        // (b)
        let other_content = Envelope::new(format!("not what the shares committed to {}", src.below(1000)));
        let claimed = to_encrypt.subject().digest().into_owned();
        if other_content.digest().into_owned() != claimed {
            let msg = ck.encrypt_with_digest(other_content.tagged_cbor().to_cbor_data(), claimed.clone(), None::<bc_components::Nonce>);
            if let Ok(forged) = Envelope::try_from(msg) {
                let mut rng3 = SeededRandomNumberGenerator::new([src.u64() | 1, 5, 6, 7]);
                if let Ok(fshares) = forged.sskr_split_using(&sskr_spec, &ck, &mut rng3) {
                    let fl: Vec<&Envelope> = fshares.iter().flatten().collect();
                    ctx.class("forged-content-under-the-declared-digest");
                    let r = nopanic!(ctx, Envelope::sskr_join(&fl), "forged", "C11/forged");
                    if let Ok(j) = r {
                        check!(ctx, j.digest().into_owned() == claimed, "forged", "C11/forged/different-envelope", "joining all shares of an encrypted subject whose content does not hash to its declared digest returned that content ({}), which no share envelope committed to", j.format_flat());
                    }
                }
            }
        }
    }
    let _ = e.digest();
    ctx.nontrivial = at_boundary > 0 && below_boundary > 0;
    Outcome::Pass
}
