//! C07 — assembling the same information in any order yields the identical envelope.

use crate::bridge::{self, build_a, check_digests, spec_model};
use crate::cbor::{self, Item};
use crate::engine::{Ctx, Outcome, Prop};
use crate::gen::{self, GenCfg, LeafSpec, Obs, Spec};
use crate::model::M;
use crate::ops::{self, gen_op};
use crate::src::Src;
use crate::{check, nopanic, tryp};
use bc_components::DigestProvider;
use bc_envelope::prelude::*;
use std::collections::{HashMap, HashSet};

pub fn prop() -> Prop {
    Prop {
        id: "C07",
        run,
        max_len: 500,
        quick: 60_000,
        thorough: 900_000,
        rule: "stream A (75%): subject + k generated assertions (k in 0..7; plain, decorated, obscured); (a) ALL k! insertion orders for k<=5 (24 sampled orders for k=6,7), each with repeated insertions at generated points, through add_assertion / add_assertion_envelope / add_optional_assertion_envelope / add_assertions / add_assertion_envelopes: every build must give the byte string the harness encoder predicts; (b) re-adding any present assertion, plain or in elided/compressed/encrypted form, returns identical bytes; (c) add-then-remove of a new assertion restores the bytes, removing all assertions yields the bare subject; (d) wrap().unwrap() is identical; (e) the receiver's bytes and structural digest are unchanged by each of 1-4 generated operations of the C04 list. stream B (25%): collections with 2-6 elements (Vec, HashMap, HashSet, dcbor::Map, dcbor::Set over i64/String/u64 elements) built 3 times in different insertion orders and fresh hashers, used as subject, predicate and object: all builds byte-identical (maps also equal to the harness's sorted-map encoding). non-trivial: k>=2 distinct assertions or a collection with >=2 elements; distinct by FNV-64 of the encoding; string elements include equal-length strings with a 30-byte common prefix; HashSet and dcbor::Set pinned to the ascending-encoding array; (f) the laws with the reference envelope as the subject of an outer node, and replace_assertion by an equal assertion / by an elided rendition; every re-add also through the *_salted(.., false) routes; replace_subject with a subject sharing an assertion = assembling on that subject one by one; Vec<HashSet<i64>> built three times per HashSet case (known finding K7)",
        assumptions: &["HashMap/HashSet iteration orders are sampled through fresh RandomState instances, not enumerated"],
        extra: None,
    }
}

fn permutations(n: usize) -> Vec<Vec<usize>> {
    fn rec(cur: &mut Vec<usize>, used: &mut Vec<bool>, n: usize, out: &mut Vec<Vec<usize>>) {
        if cur.len() == n {
            out.push(cur.clone());
            return;
        }
        for i in 0..n {
            if !used[i] {
                used[i] = true;
                cur.push(i);
                rec(cur, used, n, out);
                cur.pop();
                used[i] = false;
            }
        }
    }
    let mut out = Vec::new();
    rec(&mut Vec::new(), &mut vec![false; n], n, &mut out);
    out
}

fn add_in_order(subject: &Envelope, built: &[Envelope], order: &[usize], mode: usize) -> Envelope {
    let mut e = subject.clone();
    match mode % 5 {
        3 => {
            let v: Vec<Envelope> = order.iter().map(|i| built[*i].clone()).collect();
            e.add_assertions(&v)
        }
        4 => {
            let v: Vec<Envelope> = order.iter().map(|i| built[*i].clone()).collect();
            e.add_assertion_envelopes(&v).expect("valid assertion envelopes")
        }
        m => {
            for i in order {
                let a = &built[*i];
                if m == 1 && a.is_assertion() {
                    e = e.add_assertion(a.as_predicate().unwrap(), a.as_object().unwrap());
                } else if m == 2 {
                    e = e.add_optional_assertion_envelope(Some(a.clone())).expect("valid assertion envelope");
                } else {
                    e = e.add_assertion_envelope(a.clone()).expect("valid assertion envelope");
                }
            }
            e
        }
    }
}

fn small_subject(src: &mut Src) -> Spec {
    let mut cfg = GenCfg::new(2, 6);
    cfg.node_subject = false;
    // a bare subject (no assertions of its own) so that the assertion multiset is fully ours
    match gen::normalize(gen::gen_env(src, &mut cfg, 2)) {
        Spec::Node(s, _) => *s,
        other => other,
    }
}

fn small_assertion_slot(src: &mut Src) -> Spec {
    let mut cfg = GenCfg::new(3, 6);
    cfg.node_subject = false;
    let p = match src.below(3) {
        0 => Spec::Known(gen::KNOWN_POOL[src.below(gen::KNOWN_POOL.len())]),
        _ => Spec::Leaf(LeafSpec::Str(gen::POOL[src.below(gen::POOL.len())].to_string())),
    };
    let o = gen::normalize(gen::gen_env(src, &mut cfg, 2));
    let mut a = Spec::Assertion(Box::new(p), Box::new(o));
    if src.chance(40) {
        let inner = Spec::Assertion(Box::new(Spec::Known(15)), Box::new(Spec::Leaf(LeafSpec::Bytes(src.bytes(8)))));
        a = Spec::Node(Box::new(a), vec![inner]);
    }
    if src.chance(40) {
        let k = match src.below(3) {
            0 => Obs::Elide,
            1 => Obs::Encrypt,
            _ => Obs::Compress,
        };
        let mut n = [0u8; 12];
        n[0] = src.byte();
        a = Spec::Obscured(k, n, Box::new(a));
    }
    a
}

fn stream_a(src: &mut Src, ctx: &mut Ctx) -> Outcome {
    let subj_spec = small_subject(src);
    let k = src.weighted(&[4, 8, 18, 22, 20, 16, 7, 5]);
    let mut specs: Vec<Spec> = (0..k).map(|_| small_assertion_slot(src)).collect();
    // sometimes the same (predicate, object) is present in two renditions: plain and carrying a note / salt
    // (different digests, hence different assertions of the set)
    if k >= 1 && src.chance(70) {
        if let Some(Spec::Assertion(p, o)) = specs.iter().find(|s| matches!(s, Spec::Assertion(..))).cloned() {
            let plain = Spec::Assertion(p.clone(), o.clone());
            let note = Spec::Assertion(Box::new(Spec::Known(4)), Box::new(Spec::Leaf(LeafSpec::Str(format!("rendition {}", src.below(3))))));
            specs.push(Spec::Node(Box::new(plain), vec![note]));
        }
    }
    // distinct digests (the multiset's support); repetitions are inserted explicitly below
    let full = gen::normalize(Spec::Node(Box::new(subj_spec.clone()), specs.clone()));
    if let Spec::Node(_, a) = &full {
        specs = a.clone();
    }
    let k = specs.len();
    let model = if k == 0 { spec_model(&subj_spec) } else { spec_model(&full) };
    let expect = model.tagged();
    ctx.fingerprint(&expect);
    ctx.sample_with(|| format!("{}  (k={})", model.show(), k));
    ctx.class(&format!("k={}", k));

    let subject = nopanic!(ctx, build_a(&subj_spec, src), "build", "C07/build");
    let built: Vec<Envelope> = {
        let mut v = Vec::new();
        for s in &specs {
            v.push(nopanic!(ctx, build_a(s, src), "build", "C07/build"));
        }
        v
    };
    // the model's ciphertext blobs use generated nonces; library-made ones are random, so bytes are
    // compared against the first build, and the first build against the model position-wise.
    let reference = nopanic!(ctx, add_in_order(&subject, &built, &(0..k).collect::<Vec<_>>(), 0), "order", "C07/order");
    let rm = nopanic!(ctx, check_digests(&reference), "order", "C07/order");
    let rm = tryp!(ctx, rm, "order", "C07/order");
    tryp!(ctx, bridge::agree(&rm, &model).map_err(|s| format!("identity-order build vs specification: {}", s)), "order", "C07/order");
    let ref_bytes = reference.to_cbor_data();
    check!(ctx, ref_bytes == rm.tagged(), "order", "C07/order", "bytes of the identity-order build differ from the specification encoding");

    // (a) every insertion order, with repetitions
    let orders: Vec<Vec<usize>> = if k <= 5 {
        ctx.class("orders-exhaustive");
        permutations(k)
    } else {
        ctx.class("orders-sampled");
        (0..24)
            .map(|_| {
                let mut idx: Vec<usize> = (0..k).collect();
                for i in 0..k {
                    let j = i + src.below(k - i);
                    idx.swap(i, j);
                }
                idx
            })
            .collect()
    };
    ctx.count("builds", orders.len() as u64);
    for (n, order) in orders.iter().enumerate() {
        let mut order = order.clone();
        // repetitions at generated points
        if k > 0 && src.chance(96) {
            let reps = 1 + src.below(3);
            for _ in 0..reps {
                let which = order[src.below(order.len())];
                let at = src.below(order.len() + 1);
                order.insert(at, which);
            }
        }
        let mode = if n == 0 { 0 } else { src.below(5) };
        let e = nopanic!(ctx, add_in_order(&subject, &built, &order, mode), "order", "C07/order");
        let b = e.to_cbor_data();
        check!(ctx, b == ref_bytes, "order", "C07/order", "insertion order {:?} (api mode {}) gives different bytes for {}: {} vs {}", order, mode, model.show(), hex::encode(&b), hex::encode(&ref_bytes));
        check!(ctx, e.digest() == reference.digest(), "order", "C07/order", "insertion order {:?} gives a different digest", order);
    }

    // (b) re-adding a present assertion, in any form, changes nothing
    for (i, a) in built.iter().enumerate() {
        let forms: Vec<(&str, Envelope)> = vec![
            ("same", a.clone()),
            ("elided", a.elide()),
            ("compressed", a.compress().unwrap_or_else(|_| a.clone())),
            ("encrypted", if a.is_encrypted() { a.clone() } else { a.elide_removing_target_with_action(a, &ObscureAction::Encrypt(bridge::case_key())) }),
        ];
        for (name, f) in forms {
            let e = nopanic!(ctx, reference.add_assertion_envelope(f.clone()), "add-duplicate", "C07/add-duplicate");
            let e = tryp!(ctx, e.map_err(|x| x.to_string()), "add-duplicate", "C07/add-duplicate");
            check!(ctx, e.to_cbor_data() == ref_bytes, "add-duplicate", "C07/add-duplicate", "re-adding assertion #{} in {} form changed the envelope {}", i, name, model.show());
            // the *_salted routes with salted = false are plain adds
            let e = nopanic!(ctx, reference.add_assertion_envelope_salted(f.clone(), false), "add-duplicate", "C07/add-duplicate/unsalted-route");
            let e = tryp!(ctx, e.map_err(|x| x.to_string()), "add-duplicate", "C07/add-duplicate/unsalted-route");
            check!(ctx, e.to_cbor_data() == ref_bytes, "add-duplicate", "C07/add-duplicate/unsalted-route", "re-adding assertion #{} in {} form through add_assertion_envelope_salted(.., false) changed the envelope {}", i, name, model.show());
            let e = nopanic!(ctx, reference.add_assertions_salted(&[f.clone(), f], false), "add-duplicate", "C07/add-duplicate/unsalted-route");
            check!(ctx, e.to_cbor_data() == ref_bytes, "add-duplicate", "C07/add-duplicate/unsalted-route", "re-adding assertion #{} in {} form (twice) through add_assertions_salted(.., false) changed the envelope {}", i, name, model.show());
        }
    }

    // (c) add-then-remove restores; removing everything yields the bare subject
    let fresh = Envelope::new_assertion("C07-fresh-predicate", src.below(1000) as u64);
    let added = nopanic!(ctx, reference.add_assertion_envelope(fresh.clone()), "add-remove", "C07/add-remove");
    let added = tryp!(ctx, added.map_err(|x| x.to_string()), "add-remove", "C07/add-remove");
    check!(ctx, added.to_cbor_data() != ref_bytes, "add-remove", "C07/add-remove", "adding a new assertion changed nothing");
    let back = nopanic!(ctx, added.remove_assertion(fresh.clone()), "add-remove", "C07/add-remove");
    check!(ctx, back.to_cbor_data() == ref_bytes, "add-remove", "C07/add-remove", "add-then-remove did not restore {}: got {}", model.show(), hex::encode(back.to_cbor_data()));
    // removing by an obscured form of the assertion (same digest) works as well
    let back2 = nopanic!(ctx, added.remove_assertion(fresh.elide()), "add-remove", "C07/add-remove");
    check!(ctx, back2.to_cbor_data() == ref_bytes, "add-remove", "C07/add-remove", "removing by the elided form of the assertion did not restore the envelope");
    if k > 0 {
        let mut e = reference.clone();
        let order: Vec<usize> = {
            let mut idx: Vec<usize> = (0..k).collect();
            for i in 0..k {
                let j = i + src.below(k - i);
                idx.swap(i, j);
            }
            idx
        };
        let mut remaining: Vec<usize> = (0..k).collect();
        for i in order {
            e = nopanic!(ctx, e.remove_assertion(built[i].clone()), "remove-all", "C07/remove-all");
            remaining.retain(|x| *x != i);
            // after every single removal: exactly the other assertions are left (same bytes as building them afresh)
            let expect = if remaining.is_empty() { subject.clone() } else { add_in_order(&subject, &built, &remaining, 0) };
            check!(ctx, e.to_cbor_data() == expect.to_cbor_data(), "remove-one", "C07/remove-one", "removing assertion #{} of {} did not leave exactly the other assertions", i, model.show());
        }
        check!(ctx, e.to_cbor_data() == subject.to_cbor_data(), "remove-all", "C07/remove-all", "removing every assertion of {} did not yield the bare subject", model.show());
        check!(ctx, !e.is_node(), "remove-all", "C07/remove-all", "removing every assertion left a node");
    }

    // (d) wrap / unwrap
    let w = nopanic!(ctx, reference.wrap_envelope(), "wrap", "C07/wrap");
    let u = nopanic!(ctx, w.unwrap_envelope(), "wrap", "C07/wrap");
    let u = tryp!(ctx, u.map_err(|x| x.to_string()), "wrap", "C07/wrap");
    check!(ctx, u.to_cbor_data() == ref_bytes && u.is_identical_to(&reference), "wrap", "C07/wrap", "unwrap(wrap(e)) differs from e");
    check!(ctx, bridge::d32(&w.digest()) == M::wrapped(rm.clone()).digest(), "wrap", "C07/wrap", "wrapped digest is not SHA-256 of the inner digest");

    // (e) receiver immutability
    let steps = 1 + src.below(4);
    let mut e = reference.clone();
    let mut m = rm.clone();
    for _ in 0..steps {
        let op = gen_op(src, &m);
        let key = format!("C07/immutable/{}", op.name());
        let before_bytes = e.to_cbor_data();
        let before_sd = e.structural_digest();
        let applied = nopanic!(ctx, ops::apply(&e, &m, &op), "immutable", &key);
        check!(ctx, e.to_cbor_data() == before_bytes && e.structural_digest() == before_sd, "immutable", &key, "{} altered its receiver {}", op.show(), m.show());
        ctx.class(&format!("immutable:{}", op.name()));
        if let Ok(e2) = &applied.result {
            if let Ok(m2) = bridge::read_out(e2) {
                e = e2.clone();
                m = m2;
            }
        }
    }
    // (f) drawn last. The same laws with the reference envelope as the SUBJECT of an outer node (the
    // shape decoding, uncompress_subject and decrypt_subject produce): add-then-remove restores, removing
    // the last outer assertion yields the reference itself; and replacing an assertion by an equal one,
    // or by an obscured rendition of itself, is the same as having built the envelope with that rendition
    if src.chance(70) && k > 0 {
        ctx.class("laws-on-node-subject");
        let outer_a = Envelope::new_assertion("C07-outer", src.below(100) as u64);
        let outer_b = Envelope::new_assertion("C07-outer-2", src.below(100) as u64);
        let ns = reference.compress().and_then(|c| c.add_assertion_envelope(outer_a.clone())).and_then(|c| c.uncompress_subject());
        if let Ok(ns) = ns {
            let ns_bytes = ns.to_cbor_data();
            let expect = M::Node(Box::new(rm.clone()), vec![M::assertion(M::text("C07-outer"), bridge::read_out(&outer_a.as_object().unwrap()).unwrap())]);
            check!(ctx, ns_bytes == expect.tagged(), "node-subject", "C07/node-subject/build", "node-as-subject envelope differs from the specification encoding");
            let added = nopanic!(ctx, ns.add_assertion_envelope(outer_b.clone()), "node-subject", "C07/node-subject/add-remove");
            let added = tryp!(ctx, added.map_err(|x| x.to_string()), "node-subject", "C07/node-subject/add-remove");
            let back = nopanic!(ctx, added.remove_assertion(outer_b.clone()), "node-subject", "C07/node-subject/add-remove");
            check!(ctx, back.to_cbor_data() == ns_bytes, "node-subject", "C07/node-subject/add-remove", "add-then-remove on an envelope whose subject is a node did not restore it: {} vs {}", hex::encode(back.to_cbor_data()), hex::encode(&ns_bytes));
            let other = nopanic!(ctx, added.remove_assertion(outer_a.clone()), "node-subject", "C07/node-subject/add-remove");
            let expect2 = M::Node(Box::new(rm.clone()), vec![M::assertion(M::text("C07-outer-2"), bridge::read_out(&outer_b.as_object().unwrap()).unwrap())]);
            check!(ctx, other.to_cbor_data() == expect2.tagged(), "node-subject", "C07/node-subject/add-remove", "removing one of two outer assertions did not leave the node subject with the other one");
            let bare = nopanic!(ctx, ns.remove_assertion(outer_a.clone()), "node-subject", "C07/node-subject/remove-last");
            check!(ctx, bare.to_cbor_data() == ref_bytes, "node-subject", "C07/node-subject/remove-last", "removing the last outer assertion did not yield the subject (the reference envelope)");
        }
        // replace_subject with a new subject that already carries one of the receiver's assertions: the same as
        // assembling everything on the new subject one assertion at a time (the shared one is held once)
        {
            let ns = Envelope::new("C07-new-subject").add_assertion("C07-own", 1).add_assertion_envelope(built[0].clone()).unwrap();
            let r = nopanic!(ctx, reference.replace_subject(ns.clone()), "replace-subject", "C07/replace-subject-sharing");
            let all: Vec<usize> = (0..k).collect();
            let direct = add_in_order(&ns, &built, &all, 0);
            check!(ctx, r.to_cbor_data() == direct.to_cbor_data(), "replace-subject", "C07/replace-subject-sharing", "replace_subject with a subject that already carries assertion #0 differs from adding the assertions to that subject one by one ({})", model.show());
            let same = nopanic!(ctx, reference.replace_subject(reference.clone()), "replace-subject", "C07/replace-subject-sharing");
            check!(ctx, same.to_cbor_data() == ref_bytes, "replace-subject", "C07/replace-subject-sharing", "replace_subject(self) changed the envelope {}", model.show());
        }
        // replace by an equal assertion / by a rendition with the same digest
        let i = src.below(k);
        let a = &built[i];
        if built.iter().enumerate().any(|(j, x)| j != i && x.digest() == a.digest()) {
            // the multiset holds this assertion in two renditions: which one the reference keeps depends on
            // the insertion order, so "the envelope built with that rendition" is not a single thing
            ctx.nontrivial = k >= 2;
            return Outcome::Pass;
        }
        let same = nopanic!(ctx, reference.replace_assertion(a.clone(), a.clone()), "replace-equal", "C07/replace-equal");
        let same = tryp!(ctx, same.map_err(|x| x.to_string()), "replace-equal", "C07/replace-equal");
        check!(ctx, same.to_cbor_data() == ref_bytes, "replace-equal", "C07/replace-equal", "replacing assertion #{} by itself changed the envelope {}", i, model.show());
        let rendition = if a.is_obscured() { a.clone() } else { a.elide() };
        let swapped = nopanic!(ctx, reference.replace_assertion(a.clone(), rendition.clone()), "replace-equal", "C07/replace-equal");
        let swapped = tryp!(ctx, swapped.map_err(|x| x.to_string()), "replace-equal", "C07/replace-equal");
        let others: Vec<usize> = (0..k).filter(|x| *x != i).collect();
        let direct = add_in_order(&subject, &built, &others, 0).add_assertion_envelope(rendition).unwrap();
        check!(ctx, swapped.to_cbor_data() == direct.to_cbor_data() && swapped.digest() == reference.digest(), "replace-equal", "C07/replace-equal", "replacing assertion #{} by its elided rendition is not the envelope built with that rendition ({})", i, model.show());
    }
    ctx.nontrivial = k >= 2;
    Outcome::Pass
}

// ---- stream B: collections ----------------------------------------------------------------------

#[derive(Clone, Debug)]
enum Elem {
    I(i64),
    S(String),
}

impl Elem {
    fn item(&self) -> Item {
        match self {
            Elem::I(v) => {
                if *v >= 0 {
                    Item::U(*v as u64)
                } else {
                    Item::N((-1 - *v) as u64)
                }
            }
            Elem::S(s) => Item::T(s.clone()),
        }
    }
}

fn shuffled<T: Clone>(v: &[T], src: &mut Src) -> Vec<T> {
    let mut idx: Vec<usize> = (0..v.len()).collect();
    for i in 0..v.len() {
        let j = i + src.below(v.len() - i);
        idx.swap(i, j);
    }
    idx.into_iter().map(|i| v[i].clone()).collect()
}

fn place(e: Envelope, position: usize) -> Envelope {
    match position {
        0 => e,
        1 => Envelope::new("s").add_assertion(e, "o"),
        _ => Envelope::new("s").add_assertion("p", e),
    }
}

fn stream_b(src: &mut Src, ctx: &mut Ctx) -> Outcome {
    let n = 2 + src.below(5);
    // one byte decides the element type (as before: >= 128 integers, else strings) and, among strings,
    // the family: below 56, strings of equal length with a long common prefix (their encodings agree
    // in the first 30 bytes and differ only at the end)
    let tb = src.byte();
    let ints = tb >= 128;
    let long_prefix = tb < 56;
    if long_prefix {
        ctx.class("collection:long-common-prefix");
    }
    let mut elems: Vec<Elem> = Vec::new();
    for i in 0..n {
        let e = if ints {
            Elem::I(*src.pick(&[0i64, 1, -1, 23, 24, 255, 256, -256, 65536, 1 << 40, -(1 << 40), 7, 1000]) + i as i64 * 100_003)
        } else if long_prefix {
            Elem::S(format!("urn:verif:a-common-prefix:item-{:03}", src.below(16) * 8 + i))
        } else {
            Elem::S(format!("{}{}", gen::POOL[src.below(gen::POOL.len())], i))
        };
        elems.push(e);
    }
    let kind = src.below(5);
    let position = src.below(3);
    let kinds = ["Vec", "HashMap", "HashSet", "dcbor::Map", "dcbor::Set"];
    ctx.class(&format!("collection:{}", kinds[kind]));
    ctx.class(&format!("position:{}", ["subject", "predicate", "object"][position]));
    let orders: Vec<Vec<Elem>> = vec![elems.clone(), shuffled(&elems, src), shuffled(&elems, src)];
    let mut outs: Vec<Vec<u8>> = Vec::new();
    for (bi, order) in orders.iter().enumerate() {
        let order = if kind == 0 { &elems } else { order }; // a Vec is ordered: equal values = same order
        let key = format!("C07/collection/{}", kinds[kind]);
        let env: Envelope = nopanic!(
            ctx,
            match kind {
                0 => {
                    if ints {
                        Envelope::new(order.iter().map(|e| if let Elem::I(v) = e { *v } else { 0 }).collect::<Vec<i64>>())
                    } else {
                        Envelope::new(order.iter().map(|e| if let Elem::S(s) = e { s.clone() } else { String::new() }).collect::<Vec<String>>())
                    }
                }
                1 => {
                    if ints {
                        let mut h: HashMap<i64, String> = HashMap::new();
                        for e in order {
                            if let Elem::I(v) = e {
                                h.insert(*v, format!("v{}", v));
                            }
                        }
                        Envelope::new(h)
                    } else {
                        let mut h: HashMap<String, i64> = HashMap::new();
                        for e in order {
                            if let Elem::S(s) = e {
                                h.insert(s.clone(), s.len() as i64);
                            }
                        }
                        Envelope::new(h)
                    }
                }
                2 => {
                    if ints {
                        let mut h: HashSet<i64> = HashSet::new();
                        for e in order {
                            if let Elem::I(v) = e {
                                h.insert(*v);
                            }
                        }
                        Envelope::new(h)
                    } else {
                        let mut h: HashSet<String> = HashSet::new();
                        for e in order {
                            if let Elem::S(s) = e {
                                h.insert(s.clone());
                            }
                        }
                        Envelope::new(h)
                    }
                }
                3 => {
                    let mut m = dcbor::Map::new();
                    for e in order {
                        match e {
                            Elem::I(v) => m.insert(*v, format!("v{}", v)),
                            Elem::S(s) => m.insert(s.clone(), s.len() as i64),
                        }
                    }
                    Envelope::new(m)
                }
                _ => {
                    let mut s = dcbor::Set::new();
                    for e in order {
                        match e {
                            Elem::I(v) => s.insert(*v),
                            Elem::S(x) => s.insert(x.clone()),
                        }
                    }
                    Envelope::new(s)
                }
            },
            "collection",
            &key
        );
        let placed = place(env, position);
        let bytes = placed.to_cbor_data();
        if bi == 0 {
            ctx.fingerprint(&bytes);
            ctx.sample_with(|| format!("{} of {:?} as {}", kinds[kind], elems, ["subject", "predicate", "object"][position]));
        }
        outs.push(bytes);
    }
    let key = format!("C07/collection/{}", kinds[kind]);
    check!(ctx, outs[0] == outs[1] && outs[0] == outs[2], "collection", &key, "equal {} values built in different insertion orders give different envelopes: {} / {} / {}", kinds[kind], hex::encode(&outs[0]), hex::encode(&outs[1]), hex::encode(&outs[2]));
    // maps: pinned to the specification's sorted-map encoding
    if kind == 1 || kind == 3 {
        let entries: Vec<(Item, Item)> = elems
            .iter()
            .map(|e| match e {
                Elem::I(v) => (e.item(), Item::T(format!("v{}", v))),
                Elem::S(s) => (e.item(), Item::U(s.len() as u64)),
            })
            .collect();
        let leaf = M::leaf_item(&Item::M(entries));
        let expect = match position {
            0 => leaf,
            1 => M::text("s").add(M::assertion(leaf, M::text("o"))),
            _ => M::text("s").add(M::assertion(M::text("p"), leaf)),
        };
        check!(ctx, outs[0] == expect.tagged(), "collection", &key, "map encoding differs from the deterministic (sorted-key) encoding: {} vs {}", hex::encode(&outs[0]), hex::encode(expect.tagged()));
    }
    // a HashSet NESTED in another collection goes through dcbor's own conversion, not the crate's: equal
    // values must still give equal envelopes (listed dependency finding when they do not)
    if kind == 2 && ints && n >= 3 {
        let mut nested: Vec<Vec<u8>> = Vec::new();
        for order in &orders {
            let mut h: HashSet<i64> = HashSet::new();
            for e in order {
                if let Elem::I(v) = e {
                    h.insert(*v);
                }
            }
            let env = nopanic!(ctx, Envelope::new(vec![h]), "collection", "C07/collection/nested-HashSet");
            nested.push(place(env, position).to_cbor_data());
        }
        ctx.class("collection:HashSet-nested-in-Vec");
        if !(nested[0] == nested[1] && nested[0] == nested[2]) && !ctx.note_known("C07/dependency/nested-HashSet-order") {
            check!(ctx, false, "collection", "C07/dependency/nested-HashSet-order", "equal Vec<HashSet<i64>> values built in different insertion orders give different envelopes: {} / {} / {}", hex::encode(&nested[0]), hex::encode(&nested[1]), hex::encode(&nested[2]));
        }
    }
    // sets: pinned to the array of the elements in ascending order of their encodings
    if kind == 2 || kind == 4 {
        let mut items: Vec<Item> = elems.iter().map(|e| e.item()).collect();
        items.sort_by_key(|i| cbor::encode(i));
        let leaf = M::leaf_item(&Item::A(items));
        let expect = match position {
            0 => leaf,
            1 => M::text("s").add(M::assertion(leaf, M::text("o"))),
            _ => M::text("s").add(M::assertion(M::text("p"), leaf)),
        };
        check!(ctx, outs[0] == expect.tagged(), "collection", &key, "set encoding differs from the array of its elements in ascending encoded order: {} vs {}", hex::encode(&outs[0]), hex::encode(expect.tagged()));
    }
    ctx.nontrivial = true;
    Outcome::Pass
}

pub fn run(data: &[u8], ctx: &mut Ctx) -> Outcome {
    let mut src = Src::new(data);
    if src.chance(64) {
        ctx.class("stream:collections");
        stream_b(&mut src, ctx)
    } else {
        ctx.class("stream:assertion-orders");
        stream_a(&mut src, ctx)
    }
}
