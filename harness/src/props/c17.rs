//! C17 — salting decorrelates without changing content.

use crate::bridge::{self, build_a, check_bytes, check_digests, spec_model};
use crate::cbor::{self, Kind};
use crate::engine::{Ctx, Outcome, Prop};
use crate::gen::{self, GenCfg, LeafSpec, Spec};
use crate::model::{D32, M};
use crate::src::Src;
use crate::{check, nopanic, tryp};
use bc_components::DigestProvider;
use bc_envelope::prelude::*;
use bc_envelope::known_values;
use bc_rand::SeededRandomNumberGenerator;
use std::collections::BTreeSet;

pub fn prop() -> Prop {
    Prop {
        id: "C17",
        run,
        max_len: 400,
        quick: 30_000,
        thorough: 300_000,
        rule: "choice sequence -> envelope of serialised size 1 B .. 100 KB (log-uniform, padded with a byte-string payload) x {add_salt, add_salt_using(seeded), add_salt_with_len(n) for n in 0..64 and large, add_salt_in_range(a..=b) with a<=b, add_salt_instance, add_assertion_salted(p,o,true|false), add_assertion_envelope_salted, add_assertions_salted} x 12 independent repetitions (64 in one case in 16). oracle: result = original + exactly one new assertion with predicate known value 15 ('salt') whose object is #6.40018(byte string of length L); removing it restores the original bytes; add_salt: L within [max(8, ceil(0.05 s)), max(that+8, ceil(0.25 s))] for serialised size s; with_len(n): L = n, refused for n < 8; in_range(a..=b): a <= L <= b, refused for a < 8; salted assertion: found by its predicate, is a node whose subject is the assertion (p,o) and whose only assertion is a salt sized for that assertion; unsalted add is byte-identical to add_assertion; independent saltings have pairwise distinct digests (also in elided form) and, when the range has more than one value, not all the same length. non-trivial: size >= 200 B or a salted-assertion case; distinct by FNV-64 of (encoding, operation); salted add of an already elided / compressed / encrypted assertion (3 repetitions): one salt on it, digests pairwise distinct; add_assertions_salted with 2-4 assertions of very different sizes: one salt each, sized for its own assertion, pairwise different; one case in sixteen salts the same bytes on two fresh threads (different salts); unsalted adds of an assertion already held in elided / compressed / plain form change nothing; a salted add of an assertion that carries assertions of its own keeps them and adds exactly one salt",
        assumptions: &["OS RNG is not broken: 12 independent salts of >= 8 bytes collide with probability < 2^-57"],
        extra: None,
    }
}

/// (length of the salt bytes) if `a` is a well-formed 'salt' assertion
fn salt_len(a: &M) -> Result<usize, String> {
    match a {
        M::Assertion(p, o) if **p == M::Known(15) => {
            if let M::Leaf(b) = &**o {
                if let Ok(p) = cbor::parse(b) {
                    if let Kind::Tag(40018, inner) = &p.root.kind {
                        if let Kind::B(s, e) = inner.kind {
                            return Ok(e - s);
                        }
                    }
                }
            }
            Err("salt object is not #6.40018(byte string)".into())
        }
        _ => Err(format!("not a 'salt' assertion: {}", a.show())),
    }
}

fn salt_range_for(size: usize) -> (usize, usize) {
    let s = size as f64;
    let min = std::cmp::max(8, (s * 0.05).ceil() as usize);
    let max = std::cmp::max(min + 8, (s * 0.25).ceil() as usize);
    (min, max)
}

/// result must be `before` plus exactly one new salt assertion; returns its length
fn one_new_salt(before: &M, after: &M) -> Result<usize, String> {
    let old: BTreeSet<D32> = before.assertions().iter().map(|a| a.digest()).collect();
    let new: Vec<&M> = after.assertions().iter().filter(|a| !old.contains(&a.digest())).collect();
    if new.len() != 1 {
        return Err(format!("expected exactly one new assertion, found {}", new.len()));
    }
    if after.assertions().len() != before.assertions().len() + 1 {
        return Err("an existing assertion disappeared".into());
    }
    if after.subject().digest() != before.subject().digest() {
        return Err("the subject changed".into());
    }
    let l = salt_len(new[0])?;
    let expect = before.add(new[0].clone());
    bridge::agree(after, &expect).map_err(|s| format!("content changed: {}", s))?;
    Ok(l)
}

pub fn run(data: &[u8], ctx: &mut Ctx) -> Outcome {
    let mut src = Src::new(data);
    // size class first (log-uniform 1 B .. 100 KB)
    let target_size = match src.below(6) {
        0 => 0,
        1 => 20 + src.below(100),
        2 => 150 + src.below(600),
        3 => 1_000 + src.below(6_000),
        4 => 10_000 + src.below(40_000),
        _ => 60_000 + src.below(40_000),
    };
    let mut cfg = GenCfg::new(3, 10);
    let base = gen::gen_spec(&mut src, &mut cfg);
    let spec = if target_size > 0 {
        let pad = Spec::Assertion(Box::new(Spec::Leaf(LeafSpec::Str("pad".into()))), Box::new(Spec::Leaf(LeafSpec::Bytes(vec![0xab; target_size]))));
        match base {
            Spec::Node(s, mut a) => {
                a.push(pad);
                gen::normalize(Spec::Node(s, a))
            }
            other => Spec::Node(Box::new(other), vec![pad]),
        }
    } else {
        base
    };
    let model = spec_model(&spec);
    let e = nopanic!(ctx, build_a(&spec, &mut src), "build", "C17/build");
    let m = tryp!(ctx, bridge::read_out(&e), "readout", "C17/readout");
    let size = e.to_cbor_data().len();
    let orig_bytes = e.to_cbor_data();
    ctx.class(&format!("size:1e{}", (size as f64).log10().floor() as i64));
    let op = src.below(8);
    let opname = ["add_salt", "add_salt_using", "add_salt_with_len", "add_salt_in_range", "add_salt_instance", "add_assertion_salted(true)", "add_assertion_salted(false)", "add_assertions_salted"][op];
    ctx.class(&format!("op:{}", opname));
    ctx.fingerprint(&model.tagged()[..model.tagged().len().min(200)]);
    ctx.fingerprint(&size.to_le_bytes());
    ctx.fingerprint(opname.as_bytes());
    ctx.sample_with(|| format!("{} on an envelope of {} bytes", opname, size));
    let reps = if src.chance(16) { 64 } else { 12 };
    let key = format!("C17/{}", opname);

    let mut digests: BTreeSet<D32> = BTreeSet::new();
    let mut elided_digests: BTreeSet<Vec<u8>> = BTreeSet::new();
    let mut lengths: BTreeSet<usize> = BTreeSet::new();
    let mut range_width = 0usize;
    let mut produced = 0usize;

    // arguments fixed per case
    let n_len = match src.below(4) {
        0 => src.below(8),
        1 => 8 + src.below(56),
        2 => 8,
        _ => 1000 + src.below(5000),
    };
    let ra = src.below(40);
    let rb = ra + src.below(60);
    let p_text = format!("salted-pred-{}", src.below(10));
    let plain_present = src.chance(96);
    if plain_present && (op == 5 || op == 7) {
        ctx.class("salted-add-with-plain-present");
    }
    let o_val = src.below(1000) as u64;
    let mut seeded = SeededRandomNumberGenerator::new([src.u64() | 1, 2, 3, 4]);

    for rep in 0..reps {
        match op {
            0 | 1 => {
                let r = if op == 0 { nopanic!(ctx, e.add_salt(), "salt", &key) } else { nopanic!(ctx, e.add_salt_using(&mut seeded), "salt", &key) };
                let rm = nopanic!(ctx, check_digests(&r), "salt", &key);
                let rm = tryp!(ctx, rm, "salt", &key);
                let l = tryp!(ctx, one_new_salt(&m, &rm).map_err(|s| format!("{}: {}", opname, s)), "salt", &format!("{}/shape", key));
                let (lo, hi) = salt_range_for(size);
                check!(ctx, l >= lo && l <= hi, "salt", &format!("{}/length", key), "add_salt on {} serialised bytes made a salt of {} bytes; documented range is {}..={}", size, l, lo, hi);
                range_width = hi - lo + 1;
                lengths.insert(l);
                check!(ctx, digests.insert(rm.digest()), "decorrelation", &format!("{}/repeat", key), "two independent saltings gave the same digest");
                elided_digests.insert(r.elide().to_cbor_data());
                produced += 1;
                if rep == 0 {
                    tryp!(ctx, nopanic!(ctx, check_bytes(&r, &rm), "salt", &key), "salt", &key);
                    // removing the salt assertion restores the original
                    let added: Vec<Envelope> = r.assertions().into_iter().filter(|a| !e.assertions().iter().any(|b| b.digest() == a.digest())).collect();
                    let back = nopanic!(ctx, r.remove_assertion(added[0].clone()), "salt", &key);
                    check!(ctx, back.to_cbor_data() == orig_bytes, "salt", &format!("{}/restore", key), "removing the salt assertion does not restore the original envelope");
                }
            }
            2 => {
                let r = nopanic!(ctx, e.add_salt_with_len(n_len), "salt", &key);
                if n_len < 8 {
                    check!(ctx, r.is_err(), "salt", &format!("{}/short-accepted", key), "add_salt_with_len({}) was accepted (minimum is 8)", n_len);
                    ctx.class("refused:short-length");
                    break;
                }
                let r = tryp!(ctx, r.map_err(|x| format!("add_salt_with_len({}) failed: {}", n_len, x)), "salt", &key);
                let rm = tryp!(ctx, bridge::read_out(&r), "readout", "C17/readout");
                let l = tryp!(ctx, one_new_salt(&m, &rm), "salt", &format!("{}/shape", key));
                check!(ctx, l == n_len, "salt", &format!("{}/length", key), "add_salt_with_len({}) made a salt of {} bytes", n_len, l);
                check!(ctx, digests.insert(rm.digest()), "decorrelation", &format!("{}/repeat", key), "two independent saltings gave the same digest");
                produced += 1;
            }
            3 => {
                let r = nopanic!(ctx, e.add_salt_in_range(ra..=rb), "salt", &key);
                if ra < 8 {
                    check!(ctx, r.is_err(), "salt", &format!("{}/short-accepted", key), "add_salt_in_range({}..={}) was accepted (minimum is 8)", ra, rb);
                    ctx.class("refused:short-range");
                    break;
                }
                let r = tryp!(ctx, r.map_err(|x| format!("add_salt_in_range({}..={}) failed: {}", ra, rb, x)), "salt", &key);
                let rm = tryp!(ctx, bridge::read_out(&r), "readout", "C17/readout");
                let l = tryp!(ctx, one_new_salt(&m, &rm), "salt", &format!("{}/shape", key));
                check!(ctx, l >= ra && l <= rb, "salt", &format!("{}/length", key), "add_salt_in_range({}..={}) made a salt of {} bytes", ra, rb, l);
                range_width = rb - ra + 1;
                lengths.insert(l);
                check!(ctx, digests.insert(rm.digest()), "decorrelation", &format!("{}/repeat", key), "two independent saltings gave the same digest");
                produced += 1;
            }
            4 => {
                let salt = bc_components::Salt::new_with_len(8 + src.below(24)).unwrap();
                let want = salt.len();
                let r = nopanic!(ctx, e.add_salt_instance(salt), "salt", &key);
                let rm = tryp!(ctx, bridge::read_out(&r), "readout", "C17/readout");
                let l = tryp!(ctx, one_new_salt(&m, &rm), "salt", &format!("{}/shape", key));
                check!(ctx, l == want, "salt", &format!("{}/length", key), "add_salt_instance changed the salt length");
                produced += 1;
                break;
            }
            5 | 7 => {
                // sometimes the plain (p, o) assertion is already there: the salted one is a different
                // element (other digest) and must still be added
                let (e, m) = if plain_present {
                    let e2 = e.add_assertion(p_text.as_str(), o_val);
                    let m2 = bridge::read_out(&e2).unwrap();
                    (e2, m2)
                } else {
                    (e.clone(), m.clone())
                };
                let r = if op == 5 {
                    nopanic!(ctx, e.add_assertion_salted(p_text.as_str(), o_val, true), "salted", &key)
                } else {
                    nopanic!(ctx, e.add_assertions_salted(&[Envelope::new_assertion(p_text.as_str(), o_val)], true), "salted", &key)
                };
                let rm = nopanic!(ctx, check_digests(&r), "salted", &key);
                let rm = tryp!(ctx, rm, "salted", &key);
                // found by its predicate, exactly one
                let found = nopanic!(ctx, r.assertions_with_predicate(p_text.as_str()), "salted", &key);
                let expect_found = if plain_present { 2 } else { 1 };
                check!(ctx, found.len() == expect_found, "salted", &format!("{}/lookup", key), "after a salted add {} assertions are found by the predicate, expected {} (plain one present before: {})", found.len(), expect_found, plain_present);
                let salted_one = found.iter().find(|x| x.is_node()).cloned();
                check!(ctx, salted_one.is_some(), "salted", &format!("{}/shape", key), "no assertion carrying a salt was added");
                let found = vec![salted_one.unwrap()];
                let fm = tryp!(ctx, bridge::read_out(&found[0]), "readout", "C17/readout");
                let plain = M::assertion(M::text(&p_text), M::leaf_item(&cbor::Item::U(o_val)));
                match &fm {
                    M::Node(s, a) => {
                        check!(ctx, **s == plain, "salted", &format!("{}/shape", key), "salted assertion's subject is not the assertion (p, o): {}", fm.show());
                        check!(ctx, a.len() == 1, "salted", &format!("{}/shape", key), "salted assertion carries {} assertions, expected exactly one salt", a.len());
                        let l = tryp!(ctx, salt_len(&a[0]), "salted", &format!("{}/shape", key));
                        let (lo, hi) = salt_range_for(plain.tagged().len());
                        check!(ctx, l >= lo && l <= hi, "salted", &format!("{}/length", key), "salt of the salted assertion has {} bytes; the assertion's own size gives {}..={}", l, lo, hi);
                        range_width = hi - lo + 1;
                        lengths.insert(l);
                    }
                    _ => {
                        check!(ctx, false, "salted", &format!("{}/shape", key), "salted assertion is not an assertion carrying its own salt: {}", fm.show());
                    }
                }
                // the envelope is the original plus that one element
                let old: BTreeSet<D32> = m.assertions().iter().map(|a| a.digest()).collect();
                let new: Vec<&M> = rm.assertions().iter().filter(|a| !old.contains(&a.digest())).collect();
                check!(ctx, new.len() == 1 && rm.assertions().len() == m.assertions().len() + 1 && rm.subject().digest() == m.subject().digest(), "salted", &format!("{}/shape", key), "result is not the original plus the one salted assertion");
                check!(ctx, digests.insert(rm.digest()), "decorrelation", &format!("{}/repeat", key), "two independent salted adds gave the same digest");
                elided_digests.insert(found[0].elide().to_cbor_data());
                produced += 1;
            }
            _ => {
                // unsalted add stays deterministic and equals add_assertion
                let r = nopanic!(ctx, e.add_assertion_salted(p_text.as_str(), o_val, false), "unsalted", &key);
                let plain = nopanic!(ctx, e.add_assertion(p_text.as_str(), o_val), "unsalted", &key);
                check!(ctx, r.to_cbor_data() == plain.to_cbor_data(), "unsalted", &format!("{}/deterministic", key), "add_assertion_salted(.., false) differs from add_assertion");
                let r2 = nopanic!(ctx, e.add_assertion_envelope_salted(Envelope::new_assertion(p_text.as_str(), o_val), false), "unsalted", &key);
                let r2 = tryp!(ctx, r2.map_err(|x| x.to_string()), "unsalted", &key);
                check!(ctx, r2.to_cbor_data() == plain.to_cbor_data(), "unsalted", &format!("{}/deterministic", key), "add_assertion_envelope_salted(.., false) differs from add_assertion");
                // ... also when the assertion is already there in another form (same digest): nothing is added
                let a_plain = Envelope::new_assertion(p_text.as_str(), o_val);
                for (form, present) in [("elided", a_plain.elide()), ("compressed", a_plain.compress().unwrap_or(a_plain.clone())), ("plain", a_plain.clone())] {
                    let holder = tryp!(ctx, e.add_assertion_envelope(present).map_err(|x| x.to_string()), "unsalted", &key);
                    let again = nopanic!(ctx, holder.add_assertion_envelope_salted(a_plain.clone(), false), "unsalted", &key);
                    let again = tryp!(ctx, again.map_err(|x| x.to_string()), "unsalted", &key);
                    check!(ctx, again.to_cbor_data() == holder.to_cbor_data(), "unsalted", &format!("{}/present-in-other-form", key), "an unsalted add of an assertion the envelope already holds in {} form changed the envelope", form);
                    let again = nopanic!(ctx, holder.add_assertion_salted(p_text.as_str(), o_val, false), "unsalted", &key);
                    check!(ctx, again.to_cbor_data() == holder.to_cbor_data(), "unsalted", &format!("{}/present-in-other-form", key), "add_assertion_salted(.., false) of an assertion already held in {} form changed the envelope", form);
                }
                produced += 1;
                if rep >= 2 {
                    break;
                }
            }
        }
    }
    if produced >= 12 && matches!(op, 0 | 1 | 3 | 5 | 7) {
        check!(ctx, elided_digests.len() == produced || op == 3, "decorrelation", &format!("{}/elided", key), "elided forms of independent saltings coincide");
        if range_width >= 4 {
            // P(all equal) <= (1/4)^11 per case for 12 repetitions: only demanded for 64 repetitions (< 2^-120)
            if produced >= 64 {
                check!(ctx, lengths.len() > 1, "decorrelation", &format!("{}/constant-length", key), "{} independent salts all have the same length {:?} although the documented range has {} values", produced, lengths, range_width);
            }
            ctx.count("distinct-lengths", lengths.len() as u64);
        }
    }
    // --- salted add of an assertion that is already elided / compressed / encrypted (drawn last): it is
    // still "that assertion" (same digest), it must carry exactly one salt of its own, and two
    // independent salted adds must not coincide
    if src.chance(40) {
        let form = src.below(3);
        let plain = Envelope::new_assertion(format!("obscured-salted-{}", src.below(10)), src.below(1000) as u64);
        let obscured = match form {
            0 => plain.elide(),
            1 => plain.compress().unwrap(),
            _ => plain.encrypt_subject(&bridge::case_key()).unwrap(),
        };
        let fname = ["elided", "compressed", "encrypted"][form];
        ctx.class(&format!("salted-add-of-obscured:{}", fname));
        let okey = format!("C17/salted-obscured/{}", fname);
        let mut seen = std::collections::BTreeSet::new();
        for rep in 0..3 {
            let r = if rep == 2 {
                nopanic!(ctx, e.add_assertions_salted(&[obscured.clone()], true), "salted-obscured", &okey)
            } else {
                let r = nopanic!(ctx, e.add_assertion_envelope_salted(obscured.clone(), true), "salted-obscured", &okey);
                tryp!(ctx, r.map_err(|x| format!("salted add of an {} assertion refused: {}", fname, x)), "salted-obscured", &okey)
            };
            let rm = nopanic!(ctx, check_digests(&r), "salted-obscured", &okey);
            let rm = tryp!(ctx, rm, "salted-obscured", &okey);
            let old: std::collections::BTreeSet<_> = m.assertions().iter().map(|a| a.digest()).collect();
            let new: Vec<&M> = rm.assertions().iter().filter(|a| !old.contains(&a.digest())).collect();
            check!(ctx, new.len() == 1 && rm.assertions().len() == m.assertions().len() + 1 && rm.subject().digest() == m.subject().digest(), "salted-obscured", &format!("{}/shape", okey), "result is not the original plus one salted assertion: {}", rm.show());
            match new[0] {
                M::Node(sub, a) => {
                    check!(ctx, sub.digest() == bridge::d32(&plain.digest()) && sub.is_obscured(), "salted-obscured", &format!("{}/shape", okey), "the salted element's subject is not the {} assertion: {}", fname, new[0].show());
                    check!(ctx, a.len() == 1, "salted-obscured", &format!("{}/shape", okey), "the salted {} assertion carries {} assertions, expected exactly one salt", fname, a.len());
                    let l = tryp!(ctx, salt_len(&a[0]), "salted-obscured", &format!("{}/shape", okey));
                    check!(ctx, l >= 8, "salted-obscured", &format!("{}/length", okey), "salt of {} bytes", l);
                }
                other => {
                    check!(ctx, false, "salted-obscured", &format!("{}/shape", okey), "a salted add of an {} assertion added it without a salt: {}", fname, other.show());
                }
            }
            check!(ctx, seen.insert(rm.digest()), "salted-obscured", &format!("{}/repeat", okey), "two independent salted adds of an {} assertion gave the same digest", fname);
        }
        ctx.nontrivial = true;
    }
    // --- a salted add of an assertion that carries assertions of its own (a note, a date): what is added is
    // THAT assertion - its own assertions stay - plus exactly one salt (no draws: one fixed shape per case)
    {
        let decorated = Envelope::new_assertion("C17-decorated", (size % 1000) as u64).add_assertion(known_values::NOTE, "since the beginning").add_assertion("weight", 3);
        let dm = tryp!(ctx, bridge::read_out(&decorated), "salted-decorated", "C17/salted-decorated");
        let r = nopanic!(ctx, e.add_assertion_envelope_salted(decorated.clone(), true), "salted-decorated", "C17/salted-decorated");
        let r = tryp!(ctx, r.map_err(|x| x.to_string()), "salted-decorated", "C17/salted-decorated");
        let rm = tryp!(ctx, nopanic!(ctx, check_digests(&r), "salted-decorated", "C17/salted-decorated"), "salted-decorated", "C17/salted-decorated");
        let old: BTreeSet<_> = m.assertions().iter().map(|a| a.digest()).collect();
        let new: Vec<&M> = rm.assertions().iter().filter(|a| !old.contains(&a.digest())).collect();
        check!(ctx, new.len() == 1, "salted-decorated", "C17/salted-decorated/shape", "a salted add of a decorated assertion added {} elements", new.len());
        if let M::Node(sub, a) = new[0] {
            let own: BTreeSet<_> = dm.assertions().iter().map(|x| x.digest()).collect();
            let kept = a.iter().filter(|x| own.contains(&x.digest())).count();
            let salts = a.iter().filter(|x| salt_len(x).is_ok()).count();
            check!(ctx, sub.digest() == dm.subject().digest() && kept == own.len() && salts == 1 && a.len() == own.len() + 1, "salted-decorated", "C17/salted-decorated/shape", "a salted add of the decorated assertion {} produced {}: its own {} assertions must stay and exactly one salt be added (kept {}, salts {})", dm.show(), new[0].show(), own.len(), kept, salts);
        } else {
            check!(ctx, false, "salted-decorated", "C17/salted-decorated/shape", "a salted add of a decorated assertion did not produce a decorated assertion: {}", new[0].show());
        }
        ctx.class("salted-add-of-decorated-assertion");
    }
    // --- the array form with several assertions (drawn last): every assertion gets a salt of its own,
    // sized for that assertion; the batch is what adding them one by one gives (up to the random bytes)
    if src.chance(50) {
        let nb = 2 + src.below(3);
        let mut batch: Vec<Envelope> = Vec::new();
        for j in 0..nb {
            // very different sizes: 10 bytes .. a few KB
            let len = [0usize, 3, 40, 700, 3000][src.below(5)];
            batch.push(Envelope::new_assertion(format!("batch-{}-{}", j, src.below(10)), "x".repeat(len)));
        }
        ctx.class(&format!("salted-batch:{}", nb));
        let bkey = "C17/add_assertions_salted/batch";
        let r = nopanic!(ctx, e.add_assertions_salted(&batch, true), "salted-batch", bkey);
        let rm = nopanic!(ctx, check_digests(&r), "salted-batch", bkey);
        let rm = tryp!(ctx, rm, "salted-batch", bkey);
        let old: BTreeSet<_> = m.assertions().iter().map(|a| a.digest()).collect();
        let new: Vec<&M> = rm.assertions().iter().filter(|a| !old.contains(&a.digest())).collect();
        check!(ctx, new.len() == nb && rm.assertions().len() == m.assertions().len() + nb, "salted-batch", &format!("{}/shape", bkey), "a salted batch of {} distinct assertions added {} elements", nb, new.len());
        let mut salts: BTreeSet<Vec<u8>> = BTreeSet::new();
        for b in &batch {
            let bd = bridge::d32(&b.digest());
            let found: Vec<&&M> = new.iter().filter(|x| matches!(x, M::Node(s, _) if s.digest() == bd)).collect();
            check!(ctx, found.len() == 1, "salted-batch", &format!("{}/shape", bkey), "assertion {} of the batch is not present exactly once as a salted assertion", b.format_flat());
            if let M::Node(_, a) = found[0] {
                check!(ctx, a.len() == 1, "salted-batch", &format!("{}/shape", bkey), "a batch assertion carries {} assertions, expected one salt", a.len());
                let l = tryp!(ctx, salt_len(&a[0]), "salted-batch", &format!("{}/shape", bkey));
                let (lo, hi) = salt_range_for(b.to_cbor_data().len() - 2);
                let (lo2, hi2) = salt_range_for(b.to_cbor_data().len());
                check!(ctx, l >= lo.min(lo2) && l <= hi.max(hi2), "salted-batch", &format!("{}/length", bkey), "in a salted batch, the assertion of {} serialised bytes got a salt of {} bytes; its own size gives {}..={}", b.to_cbor_data().len(), l, lo.min(lo2), hi.max(hi2));
                check!(ctx, salts.insert(a[0].tagged()), "salted-batch", &format!("{}/shared-salt", bkey), "two assertions of one salted batch carry the same salt bytes");
            }
        }
        ctx.nontrivial = true;
    }
    // --- independent saltings on different threads (one case in sixteen, decided by the envelope): two
    // fresh threads decode the same bytes and salt them once each
    if crate::src::fnv(&e.to_cbor_data()) % 16 == 0 {
        let bytes = e.to_cbor_data();
        let spawn = |b: Vec<u8>| std::thread::spawn(move || Envelope::try_from_cbor_data(b).map(|x| (x.add_salt().to_cbor_data(), x.add_assertion_salted("t", 1, true).to_cbor_data())).map_err(|x| x.to_string()));
        let (h1, h2) = (spawn(bytes.clone()), spawn(bytes.clone()));
        if let (Ok(Ok(a)), Ok(Ok(b))) = (h1.join(), h2.join()) {
            ctx.class("salted-on-two-fresh-threads");
            check!(ctx, a.0 != b.0, "decorrelation", "C17/add_salt/across-threads", "add_salt of equal envelopes on two fresh threads produced the same salt");
            check!(ctx, a.1 != b.1, "decorrelation", "C17/add_assertion_salted/across-threads", "a salted add of equal assertions on two fresh threads produced the same salt");
        }
    }
    let _ = e.digest();
    if size >= 200 || op >= 5 {
        ctx.nontrivial = true;
    }
    Outcome::Pass
}
