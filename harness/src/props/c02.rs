//! C02 — eliding, encrypting or compressing any part never changes any digest.

use crate::bridge::{self, build_a, build_b, case_key, check_digests, d32, dig, spec_model, to_hashset};
use crate::engine::{Ctx, Outcome, Prop};
use crate::gen::{self, GenCfg, Obs};
use crate::model::{D32, M};
use crate::src::Src;
use crate::{check, nopanic, tryp};
use bc_components::{Digest, DigestProvider};
use bc_envelope::prelude::*;
use bc_envelope::known_values;
use std::collections::BTreeSet;

pub fn prop() -> Prop {
    Prop {
        id: "C02",
        run,
        max_len: 600,
        quick: 300_000,
        thorough: 3_000_000,
        rule: "choice sequence -> envelope (incl. wrapped, nested nodes, repeated digests, already-obscured parts) x target set (random subset of element digests, plus absent digests, or empty) x {removing, revealing} x {Elide, Encrypt, Compress} through the set/array/target API forms, or a whole-envelope form (elide, encrypt_subject, encrypt, compress, compress_subject), optionally chained twice; oracle: root digest unchanged (model digest), every surviving position has the digest of the same position in the original (harness recomputation + library digest()), no panic. non-trivial: >=1 element changed case; distinct by FNV-64 of (encoding, targets, mode, action); consequence stage (1 in 6): the envelope signed by 2-3 keys with/without metadata, a target set (often one element inside a signature assertion) obscured, every signer whose 'signed' assertion is byte-for-byte untouched must verify as before; proof consequence (an inclusion proof for any element still present, made from the original or from the transformed envelope, is confirmed by the other) and recipient consequence (after encrypt_subject_to_recipients, obscuring one sealed message leaves >= n-1 recipients able to open); SSKR consequence (2-of-3 split, the second presented share with its subject elided or another element obscured: the quorum still reconstructs); type consequence (the object or the predicate of an 'isA' assertion obscured: has_type / check_type / types() as before)",
        assumptions: &["encrypt(): 'same digest as the original' is read as the digest of the wrapped original, since encrypt = wrap + encrypt_subject by documentation"],
        extra: None,
    }
}

/// Every position still present in `after` has the digest (and case) of the same position in `before`.
pub fn same_positions(before: &M, after: &M, path: &mut Vec<usize>, changed: &mut usize) -> Result<(), String> {
    if before.digest() != after.digest() {
        return Err(format!("digest at position {:?} changed: {} -> {}", path, hex::encode(before.digest()), hex::encode(after.digest())));
    }
    if after.is_obscured() {
        if before.kind() != after.kind() {
            *changed += 1;
        }
        return Ok(());
    }
    if before.is_obscured() {
        return Err(format!("position {:?} was obscured and is now {:?}", path, after.kind()));
    }
    if before.kind() != after.kind() {
        return Err(format!("case at position {:?} changed: {:?} -> {:?}", path, before.kind(), after.kind()));
    }
    let cb = before.children();
    let ca = after.children();
    if cb.len() != ca.len() {
        return Err(format!("number of children at {:?} changed: {} -> {}", path, cb.len(), ca.len()));
    }
    for (i, (b, a)) in cb.iter().zip(ca.iter()).enumerate() {
        path.push(i);
        same_positions(b, a, path, changed)?;
        path.pop();
    }
    Ok(())
}

pub fn action_of(o: Obs) -> ObscureAction {
    match o {
        Obs::Elide => ObscureAction::Elide,
        Obs::Encrypt => ObscureAction::Encrypt(case_key()),
        Obs::Compress => ObscureAction::Compress,
    }
}

/// Apply a target-set obscuration through one of the public API forms.
pub fn apply_elide(e: &Envelope, t: &BTreeSet<D32>, reveal: bool, action: Obs, form: usize) -> Envelope {
    let hs = to_hashset(t);
    let digs: Vec<Digest> = t.iter().map(dig).collect();
    let provs: Vec<&dyn DigestProvider> = digs.iter().map(|d| d as &dyn DigestProvider).collect();
    let act = action_of(action);
    match (form % 6, reveal, action) {
        (0, false, _) => e.elide_removing_set_with_action(&hs, &act),
        (0, true, _) => e.elide_revealing_set_with_action(&hs, &act),
        (1, false, _) => e.elide_removing_array_with_action(&provs, &act),
        (1, true, _) => e.elide_revealing_array_with_action(&provs, &act),
        (2, false, Obs::Elide) => e.elide_removing_set(&hs),
        (2, true, Obs::Elide) => e.elide_revealing_set(&hs),
        (3, false, Obs::Elide) => e.elide_removing_array(&provs),
        (3, true, Obs::Elide) => e.elide_revealing_array(&provs),
        (4, r, _) if provs.len() == 1 => e.elide_target_with_action(provs[0], r, &act),
        (5, false, Obs::Elide) if provs.len() == 1 => e.elide_removing_target(provs[0]),
        (5, true, Obs::Elide) if provs.len() == 1 => e.elide_revealing_target(provs[0]),
        // the generic forms (is_revealing as an argument); which one is a function of the target set, so no
        // further choice is drawn
        (f, r, a) => match ((t.len() + f) % 6, a) {
            (1, _) => e.elide_array_with_action(&provs, r, &act),
            (2, Obs::Elide) => e.elide_set(&hs, r),
            (3, Obs::Elide) => e.elide_array(&provs, r),
            (4, _) if provs.len() == 1 => e.elide_target_with_action(provs[0], r, &act),
            (5, Obs::Elide) if provs.len() == 1 => e.elide_target(provs[0], r),
            _ => e.elide_set_with_action(&hs, r, &act),
        },
    }
}

pub fn gen_obs(src: &mut Src) -> Obs {
    match src.below(3) {
        0 => Obs::Elide,
        1 => Obs::Encrypt,
        _ => Obs::Compress,
    }
}

/// One obscuring step. On success `next` holds the result and its read-out; it stays `None` when
/// the operation legitimately refused.
fn one_step(ctx: &mut Ctx, src: &mut Src, e: &Envelope, m: &M, tag: &str, next: &mut Option<(Envelope, M)>) -> Outcome {
    let form = src.weighted(&[70, 6, 6, 6, 6, 6]);
    let name: String;
    let result: Result<Envelope, String>;
    let mut expect_root = m.digest();
    match form {
        0 => {
            let reveal = src.chance(100);
            let t = if reveal && src.chance(180) { gen::gen_reveal_targets(src, m) } else { gen::gen_targets(src, m, true) };
            let action = gen_obs(src);
            let api = src.below(7);
            ctx.class(&format!("{}:{}:{:?}", tag, if reveal { "revealing" } else { "removing" }, action));
            let els = m.elements();
            let present = t.iter().filter(|d| els.iter().any(|x| &x.digest() == *d)).count();
            if present < t.len() {
                ctx.class("absent-target");
            }
            if t.iter().any(|d| els.iter().filter(|x| &x.digest() == d).count() > 1) {
                ctx.class("multi-position-target");
            }
            if m.count_obscured() > 0 {
                ctx.class("pre-obscured-input");
            }
            for d in &t {
                ctx.fingerprint(d);
            }
            ctx.fingerprint(&[reveal as u8, action as u8]);
            name = format!("elide-set/{:?}", action);
            let key = format!("C02/{}", name);
            let r = nopanic!(ctx, apply_elide(e, &t, reveal, action, api), &name, &key);
            result = Ok(r);
        }
        1 => {
            name = "elide".into();
            result = Ok(nopanic!(ctx, e.elide(), &name, "C02/elide"));
        }
        2 => {
            name = "encrypt_subject".into();
            result = nopanic!(ctx, e.encrypt_subject(&case_key()).map_err(|x| x.to_string()), &name, "C02/encrypt_subject");
        }
        3 => {
            name = "encrypt".into();
            expect_root = M::wrapped(m.clone()).digest();
            result = Ok(nopanic!(ctx, e.encrypt(&case_key()), &name, "C02/encrypt"));
        }
        4 => {
            name = "compress".into();
            result = nopanic!(ctx, e.compress().map_err(|x| x.to_string()), &name, "C02/compress");
        }
        _ => {
            name = "compress_subject".into();
            result = nopanic!(ctx, e.compress_subject().map_err(|x| x.to_string()), &name, "C02/compress_subject");
        }
    }
    ctx.fingerprint(name.as_bytes());
    let key = format!("C02/{}", name);
    let r = match result {
        Ok(r) => r,
        Err(err) => {
            // refusals are allowed only where documented: the element is already encrypted / elided
            let s = m.subject();
            let allowed = match name.as_str() {
                "encrypt_subject" => matches!(s, M::Encrypted(..) | M::Elided(_)),
                "compress" => matches!(m, M::Encrypted(..) | M::Elided(_)),
                "compress_subject" => matches!(s, M::Encrypted(..) | M::Elided(_)),
                _ => false,
            };
            check!(ctx, allowed, &name, &key, "{} refused ({}) on {}", name, err, m.show());
            ctx.class(&format!("refused:{}", name));
            return Outcome::Pass;
        }
    };
    let lm = nopanic!(ctx, check_digests(&r), &name, &key);
    let lm = tryp!(ctx, lm.map_err(|s| format!("after {} on {}: {}", name, m.show(), s)), &name, &key);
    check!(ctx, d32(&r.digest()) == expect_root && lm.digest() == expect_root, &name, &key, "{} changed the root digest of {}", name, m.show());
    let mut changed = 0usize;
    let reference = if name == "encrypt" { M::wrapped(m.clone()) } else { m.clone() };
    tryp!(ctx, same_positions(&reference, &lm, &mut Vec::new(), &mut changed).map_err(|s| format!("{} on {}: {} (result {})", name, m.show(), s, lm.show())), &name, &key);
    if changed > 0 {
        ctx.nontrivial = true;
    }
    *next = Some((r, lm));
    Outcome::Pass
}

pub fn run(data: &[u8], ctx: &mut Ctx) -> Outcome {
    let mut src = Src::new(data);
    let mut cfg = GenCfg::new(5, 40);
    let spec = gen::gen_spec(&mut src, &mut cfg);
    let model = spec_model(&spec);
    ctx.fingerprint(&model.tagged());
    ctx.sample_with(|| model.show());
    let e = if src.chance(64) {
        let b = nopanic!(ctx, build_b(&model), "build", "C02/build");
        tryp!(ctx, b, "build", "C02/build")
    } else {
        nopanic!(ctx, build_a(&spec, &mut src), "build", "C02/build")
    };
    let m = tryp!(ctx, bridge::read_out(&e), "readout", "C02/readout");
    let mut next = None;
    match one_step(ctx, &mut src, &e, &m, "step1", &mut next) {
        Outcome::Pass => {}
        other => return other,
    }
    if let Some((e2, m2)) = next {
        if src.chance(80) {
            ctx.class("chain-of-two");
            let mut n2 = None;
            match one_step(ctx, &mut src, &e2, &m2, "step2", &mut n2) {
                Outcome::Pass => {}
                other => return other,
            }
        }
    }
    // drawn last, so that recorded choice sequences keep their meaning
    if src.chance(44) {
        return signed_consequence(ctx, &mut src, &e, &m);
    }
    if src.chance(36) {
        return proof_consequence(ctx, &mut src, &e, &m);
    }
    if src.chance(36) {
        return recipient_consequence(ctx, &mut src, &e, &m);
    }
    if src.chance(30) {
        return sskr_consequence(ctx, &mut src, &e, &m);
    }
    if src.chance(30) {
        return type_consequence(ctx, &mut src, &e, &m);
    }
    Outcome::Pass
}

/// Types are found by digest as well: after the type OBJECT of an 'isA' assertion (or the predicate) has
/// been obscured, the envelope still has that type; an attachment next to it is reported as before. (An
/// attachment whose own payload or vendor is obscured is a different matter: its parts cannot be read
/// any more and it is reported invalid - nothing the property promises.)
fn type_consequence(ctx: &mut Ctx, src: &mut Src, e: &Envelope, m: &M) -> Outcome {
    let isa = M::Known(1).digest();
    let att = M::Known(50).digest();
    if m.is_obscured() || m.assertions().iter().any(|a| matches!(a.subject(), M::Assertion(p, _) if p.digest() == isa || p.digest() == att)) {
        return Outcome::Pass;
    }
    let kv = KnownValue::new(*src.pick(&[200u64, 201, 7, 65536, u64::MAX]));
    let text_type = format!("Type{}", src.below(3));
    let typed = nopanic!(ctx, e.add_type(kv.clone()).add_type(text_type.as_str()).add_attachment("payload", "com.example", Some("urn:x")), "types", "C02/types/build");
    let targets: Vec<(&str, Envelope)> = vec![
        ("known-value type object", Envelope::new(kv.clone())),
        ("text type object", Envelope::new(text_type.as_str())),
        ("predicate 'isA'", Envelope::new(known_values::IS_A)),
    ];
    let (tname, target) = &targets[src.below(targets.len())];
    // the digest must not belong to an element of the original envelope as well
    let td = d32(&target.digest());
    if m.elements().iter().any(|x| x.digest() == td) {
        return Outcome::Pass;
    }
    let action = gen_obs(src);
    let hidden = nopanic!(ctx, typed.elide_removing_target_with_action(target, &action_of(action)), "types", "C02/types/transform");
    check!(ctx, hidden.digest() == typed.digest(), "types", "C02/types/transform", "obscuring the {} changed the digest", tname);
    ctx.class(&format!("types:{}:{:?}", tname, action));
    let key = "C02/types/after";
    let h = nopanic!(ctx, hidden.has_type(&kv), "types", key);
    check!(ctx, h && hidden.check_type(&kv).is_ok(), "types", key, "after {:?} of the {} (no digest changed) has_type('{}') = {}", action, tname, kv.value(), h);
    let h = nopanic!(ctx, hidden.has_type_envelope(text_type.as_str()), "types", key);
    check!(ctx, h && hidden.check_type_envelope(text_type.as_str()).is_ok(), "types", key, "after {:?} of the {} has_type_envelope({:?}) = {}", action, tname, text_type, h);
    let n = nopanic!(ctx, hidden.types().len(), "types", key);
    check!(ctx, n == 2, "types", key, "after {:?} of the {} types() reports {} types, 2 were added", action, tname, n);
    let want: BTreeSet<D32> = typed.attachments().map(|v| v.iter().map(|x| d32(&x.digest())).collect()).unwrap_or_default();
    let got: Result<BTreeSet<D32>, String> = nopanic!(ctx, hidden.attachments().map(|v| v.iter().map(|x| d32(&x.digest())).collect()).map_err(|x| x.to_string()), "types", key);
    check!(ctx, want.len() == 1 && got.as_ref() == Ok(&want), "types", key, "after {:?} of the {} attachments() reports {:?}, before it reported {} attachment", action, tname, got.as_ref().map(|x| x.len()), want.len());
    ctx.fingerprint(&[0x55, action as u8]);
    ctx.fingerprint(&td);
    ctx.nontrivial = true;
    Outcome::Pass
}

/// The same for SSKR: share envelopes of a 2-of-3 split, one of them with a part obscured by its holder
/// (the encrypted subject of a share that is not presented first, or any element other than the share
/// itself) - no digest changes, the quorum still reconstructs the original subject.
fn sskr_consequence(ctx: &mut Ctx, src: &mut Src, e: &Envelope, m: &M) -> Outcome {
    let share_pred = M::Known(6).digest();
    if m.is_obscured() || matches!(m.subject(), M::Encrypted(..) | M::Elided(_)) || m.assertions().iter().any(|a| matches!(a.subject(), M::Assertion(p, _) if p.digest() == share_pred)) {
        return Outcome::Pass;
    }
    let ck = bc_components::SymmetricKey::from_data_ref(src.bytes(32)).unwrap();
    let enc = tryp!(ctx, nopanic!(ctx, e.encrypt_subject(&ck).map_err(|x| x.to_string()), "sskr", "C02/sskr/split"), "sskr", "C02/sskr/split");
    let spec = bc_components::SSKRSpec::new(1, vec![bc_components::SSKRGroupSpec::new(2, 3).unwrap()]).unwrap();
    let shares = tryp!(ctx, nopanic!(ctx, enc.sskr_split_flattened(&spec, &ck).map_err(|x| x.to_string()), "sskr", "C02/sskr/split"), "sskr", "C02/sskr/split");
    check!(ctx, shares.len() == 3, "sskr", "C02/sskr/split", "a 2-of-3 split returned {} share envelopes", shares.len());
    let a = src.below(3);
    let b = (a + 1 + src.below(2)) % 3;
    let first = shares[a].clone();
    let second = shares[b].clone();
    let sm = tryp!(ctx, bridge::read_out(&second), "sskr", "C02/sskr/readout");
    // what the holder of the second share obscures: the encrypted subject, or an element that is not part
    // of the 'sskrShare' assertion
    let own_share: BTreeSet<D32> = sm
        .assertions()
        .iter()
        .filter(|x| matches!(x.subject(), M::Assertion(p, _) if p.digest() == share_pred))
        .flat_map(|x| x.elements().into_iter().map(|y| y.digest()).collect::<Vec<_>>())
        .collect();
    let cands: Vec<D32> = sm.elements().iter().skip(1).map(|x| x.digest()).filter(|d| !own_share.contains(d)).collect();
    if cands.is_empty() {
        return Outcome::Pass;
    }
    let victim = if src.chance(128) { sm.subject().digest() } else { cands[src.below(cands.len())] };
    let action = if victim == sm.subject().digest() { Obs::Elide } else { gen_obs(src) };
    let mut t = BTreeSet::new();
    t.insert(victim);
    let changed = nopanic!(ctx, apply_elide(&second, &t, false, action, src.below(7)), "sskr", "C02/sskr/transform");
    check!(ctx, changed.digest() == second.digest(), "sskr", "C02/sskr/transform", "obscuring part of a share envelope changed its digest");
    ctx.class(&format!("sskr:{}:{:?}", if victim == sm.subject().digest() { "subject-of-a-later-share" } else { "other-element" }, action));
    let r = nopanic!(ctx, Envelope::sskr_join(&[&first, &changed]).map(|x| d32(&x.digest())).map_err(|x| x.to_string()), "sskr", "C02/sskr/join");
    check!(ctx, r == Ok(m.subject().digest()), "sskr", "C02/sskr/join", "two of three shares, the second one with a part obscured by its holder (no digest changed): join gives {:?}, expected the original subject", r);
    ctx.fingerprint(&[0x54, action as u8]);
    ctx.fingerprint(&victim);
    ctx.nontrivial = true;
    Outcome::Pass
}

/// "... proofs ... stay valid": the original and the transformed envelope have the same digests, so an
/// inclusion proof for an element still present (visible or obscured) in the transformed envelope can be
/// produced from either of them and is confirmed by the other.
fn proof_consequence(ctx: &mut Ctx, src: &mut Src, e: &Envelope, m: &M) -> Outcome {
    let t = gen::gen_targets(src, m, false);
    let action = gen_obs(src);
    let r = nopanic!(ctx, apply_elide(e, &t, false, action, 0), "proof", "C02/proof/transform");
    let rm = tryp!(ctx, nopanic!(ctx, check_digests(&r), "proof", "C02/proof/transform"), "proof", "C02/proof/transform");
    let els = rm.elements();
    let x = els[src.below(els.len())];
    let d = dig(&x.digest());
    ctx.class(&format!("proof:target-{}", if x.is_obscured() { "obscured" } else { "visible" }));
    let p0 = nopanic!(ctx, e.proof_contains_target(&d), "proof", "C02/proof/from-original");
    let Some(p0) = p0 else {
        check!(ctx, false, "proof", "C02/proof/from-original", "no proof from the original for an element of it: {} in {}", x.show(), m.show());
        return Outcome::Pass;
    };
    let ok = nopanic!(ctx, r.confirm_contains_target(&d, &p0), "proof", "C02/proof/from-original");
    check!(ctx, ok, "proof", "C02/proof/from-original", "a proof made from the original is not confirmed by the transformed envelope (same root digest)");
    let p1 = nopanic!(ctx, r.proof_contains_target(&d), "proof", "C02/proof/from-transformed");
    let Some(p1) = p1 else {
        check!(ctx, false, "proof", "C02/proof/from-transformed", "the transformed envelope {} yields no proof for {} ({:?}), an element still present in it; the original does", rm.show(), x.show(), x.kind());
        return Outcome::Pass;
    };
    let ok = nopanic!(ctx, e.confirm_contains_target(&d, &p1), "proof", "C02/proof/from-transformed");
    check!(ctx, ok, "proof", "C02/proof/from-transformed", "a proof made from the transformed envelope is not confirmed by the original");
    ctx.fingerprint(&[0x52, action as u8]);
    ctx.fingerprint(&x.digest());
    if rm.tagged() != m.tagged() {
        ctx.nontrivial = true;
    }
    Outcome::Pass
}

/// The same for recipients: after the subject was encrypted to several recipients, obscuring the sealed
/// message of one of them (any action) takes away nothing from the others.
fn recipient_consequence(ctx: &mut Ctx, src: &mut Src, e: &Envelope, m: &M) -> Outcome {
    let has_recipient = M::Known(5).digest();
    if m.is_obscured() || matches!(m.subject(), M::Encrypted(..) | M::Elided(_)) || m.assertions().iter().any(|a| matches!(a.subject(), M::Assertion(p, _) if p.digest() == has_recipient)) {
        return Outcome::Pass;
    }
    let pool = crate::keys::core_pool();
    let n = 2 + src.below(3);
    let mut ks: Vec<usize> = Vec::new();
    while ks.len() < n {
        let mut i = src.below(pool.enc.len());
        while ks.contains(&i) {
            i = (i + 1) % pool.enc.len();
        }
        ks.push(i);
    }
    let recips: Vec<&dyn bc_components::Encrypter> = ks.iter().map(|i| &pool.enc[*i].public as &dyn bc_components::Encrypter).collect();
    let enc = nopanic!(ctx, e.encrypt_subject_to_recipients(&recips).map_err(|x| x.to_string()), "recipients", "C02/recipients/encrypt");
    let enc = tryp!(ctx, enc, "recipients", "C02/recipients/encrypt");
    let em = tryp!(ctx, bridge::read_out(&enc), "recipients", "C02/recipients/encrypt");
    let sealed: Vec<&M> = em.assertions().iter().filter(|a| matches!(a, M::Assertion(p, _) if p.digest() == has_recipient)).collect();
    check!(ctx, sealed.len() == n, "recipients", "C02/recipients/encrypt", "{} recipients, {} 'hasRecipient' assertions", n, sealed.len());
    // the victim: one sealed message (the assertion's object), or the whole assertion
    let v = sealed[src.below(sealed.len())];
    let whole = src.chance(60);
    let vd = if whole { v.digest() } else { v.children()[1].digest() };
    let action = gen_obs(src);
    let mut t = BTreeSet::new();
    t.insert(vd);
    let r = nopanic!(ctx, apply_elide(&enc, &t, false, action, src.below(7)), "recipients", "C02/recipients/transform");
    check!(ctx, d32(&r.digest()) == em.digest(), "recipients", "C02/recipients/transform", "obscuring a sealed message changed the root digest");
    ctx.class(&format!("recipients:{}:{:?}", if whole { "assertion" } else { "sealed-message" }, action));
    let want = m.subject().digest();
    let mut opened = 0;
    for &i in &ks {
        let got = nopanic!(ctx, r.decrypt_subject_to_recipient(&pool.enc[i].private).map(|x| d32(&x.subject().digest())).map_err(|x| x.to_string()), "recipients", "C02/recipients/decrypt");
        if let Ok(dg) = got {
            check!(ctx, dg == want, "recipients", "C02/recipients/decrypt", "a recipient decrypted to another subject");
            opened += 1;
        }
    }
    check!(ctx, opened >= n - 1, "recipients", "C02/recipients/decrypt", "one of {} sealed messages was obscured ({:?}), no digest changed, yet only {} recipients can still open the envelope: {}", n, action, opened, bridge::read_out(&r).map(|x| x.show()).unwrap_or_default());
    ctx.fingerprint(&[0x53, action as u8, whole as u8]);
    ctx.nontrivial = true;
    Outcome::Pass
}

/// The "hence" clause: a signature made over the original's digests stays valid for the transformed
/// envelope. Two keys sign the envelope (with or without metadata); a target set - often inside one
/// signer's 'signed' assertion - is obscured; every signer whose 'signed' assertion is still there in
/// full must verify exactly as before, whatever happened to the rest.
fn signed_consequence(ctx: &mut Ctx, src: &mut Src, e: &Envelope, m: &M) -> Outcome {
    let signed_pred = M::Known(3).digest();
    if m.is_obscured() || m.assertions().iter().any(|a| matches!(a.subject(), M::Assertion(p, _) if p.digest() == signed_pred)) {
        return Outcome::Pass;
    }
    let pool = crate::keys::core_pool();
    let n = 2 + src.below(2);
    let mut ks: Vec<usize> = Vec::new();
    while ks.len() < n {
        let mut i = src.below(pool.sig.len());
        while ks.contains(&i) {
            i = (i + 1) % pool.sig.len();
        }
        ks.push(i);
    }
    let mut signed = e.clone();
    let mut own: Vec<D32> = Vec::new();
    for &i in &ks {
        let md = if src.chance(140) { Some(bc_envelope::SignatureMetadata::new().with_assertion(known_values::NOTE, format!("signer {}", i))) } else { None };
        let before: BTreeSet<D32> = signed.assertions().iter().map(|a| d32(&a.digest())).collect();
        signed = nopanic!(ctx, signed.add_signature_opt(&pool.sig[i].private, None, md), "signed", "C02/signed/sign");
        let new: Vec<D32> = signed.assertions().iter().map(|a| d32(&a.digest())).filter(|d| !before.contains(d)).collect();
        check!(ctx, new.len() == 1, "signed", "C02/signed/sign", "adding a signature added {} assertions", new.len());
        own.push(new[0]);
    }
    let sm = tryp!(ctx, bridge::read_out(&signed), "signed", "C02/signed/readout");
    for (j, &i) in ks.iter().enumerate() {
        let r = nopanic!(ctx, signed.has_signature_from(&pool.sig[i].public).map_err(|x| x.to_string()), "signed", "C02/signed/before");
        check!(ctx, r == Ok(true), "signed", "C02/signed/before", "signer {} does not verify on the freshly signed envelope: {:?}", j, r);
    }
    // targets: the general generators, or a single element inside one signer's 'signed' assertion
    let reveal = src.chance(70);
    let t: BTreeSet<D32> = if !reveal && src.chance(150) {
        let a = sm.assertions().iter().find(|a| a.digest() == own[src.below(own.len())]);
        let inner: Vec<&M> = a.map(|a| a.elements()).unwrap_or_default();
        let mut t = BTreeSet::new();
        if inner.len() > 1 {
            t.insert(inner[1 + src.below(inner.len() - 1)].digest());
        }
        ctx.class("signed:target-inside-a-signature");
        t
    } else if reveal {
        gen::gen_reveal_targets(src, &sm)
    } else {
        gen::gen_targets(src, &sm, true)
    };
    let action = gen_obs(src);
    let api = src.below(7);
    ctx.class(&format!("signed:{}:{:?}", if reveal { "revealing" } else { "removing" }, action));
    for d in &t {
        ctx.fingerprint(d);
    }
    ctx.fingerprint(&[0x51, reveal as u8, action as u8]);
    let r = nopanic!(ctx, apply_elide(&signed, &t, reveal, action, api), "signed", "C02/signed/transform");
    let rm = nopanic!(ctx, check_digests(&r), "signed", "C02/signed/transform");
    let rm = tryp!(ctx, rm.map_err(|s| format!("after obscuring {} of a signed envelope {}: {}", t.len(), sm.show(), s)), "signed", "C02/signed/transform");
    check!(ctx, rm.digest() == sm.digest(), "signed", "C02/signed/transform", "obscuring changed the root digest of the signed envelope {}", sm.show());
    if rm.is_obscured() {
        return Outcome::Pass;
    }
    let mut intact = 0;
    for (j, &i) in ks.iter().enumerate() {
        let Some(orig) = sm.assertions().iter().find(|a| a.digest() == own[j]) else { continue };
        let Some(now) = rm.assertions().iter().find(|a| a.digest() == own[j]) else { continue };
        if orig.tagged() != now.tagged() {
            continue;
        }
        intact += 1;
        let k = &pool.sig[i];
        let r1 = nopanic!(ctx, r.has_signature_from(&k.public).map_err(|x| x.to_string()), "signed", "C02/signed/after");
        check!(ctx, r1 == Ok(true), "signed", "C02/signed/after", "the signature of signer {} ({}) is untouched, no digest changed, yet it no longer verifies after {:?} of {} target(s): {:?}; before {} ; after {}", j, k.scheme, action, t.len(), r1, sm.show(), rm.show());
        let r2 = nopanic!(ctx, r.verify_signature_from(&k.public).map(|v| d32(&v.digest())).map_err(|x| x.to_string()), "signed", "C02/signed/after");
        check!(ctx, r2 == Ok(sm.digest()), "signed", "C02/signed/after", "verify_signature_from for the untouched signer {} after the transformation: {:?}", j, r2);
    }
    if intact > 0 && rm.tagged() != sm.tagged() {
        ctx.class("signed:verified-after-change");
        ctx.nontrivial = true;
    }
    Outcome::Pass
}
