//! C14 — equivalence and identity comparisons are exact.

use crate::bridge::{self, build_a, spec_model};
use crate::engine::{Ctx, Outcome, Prop};
use crate::gen::{self, GenCfg, Obs};
use crate::model::M;
use crate::props::c02::{apply_elide, gen_obs};
use crate::src::Src;
use crate::{check, nopanic, tryp};
use bc_envelope::prelude::*;

pub fn prop() -> Prop {
    Prop {
        id: "C14",
        run,
        max_len: 600,
        quick: 15_000,
        thorough: 400_000,
        rule: "choice sequence -> a family per case: the original; 3-6 variants obscured by generated target sets (both modes, three actions), including the same target set under each of the three actions and the same set encrypted twice (different nonces); a re-decoded copy of every member; an envelope with one more assertion; 1-2 unrelated envelopes. All ordered pairs and 20 sampled triples. oracle: is_equivalent_to(a,b) <=> model digests equal; is_identical_to(a,b) and a==b <=> equivalent AND equal obscuration signature (pre-order list of (path, elided|encrypted|compressed) read through case()); reflexive, symmetric, transitive; identical => equivalent; every member identical to its re-decoded copy; a variant in which >=1 element changed case is equivalent and NOT identical to its source. non-trivial: family contains >=2 equivalent-but-not-identical members; distinct by FNV-64 of (encoding, target sets); one case in ten under 33-40 wrappers",
        assumptions: &["two members with equal digests have equal content (SHA-256 collision freedom), so equal obscuration signatures mean equal structure"],
        extra: None,
    }
}

pub fn run(data: &[u8], ctx: &mut Ctx) -> Outcome {
    let mut src = Src::new(data);
    let mut cfg = GenCfg::new(4, 30);
    let spec = gen::gen_spec(&mut src, &mut cfg);
    // one case in ten is the same envelope under 33-40 wrappers: its elements lie deeper than any fixed
    // traversal limit one might think of. Decided by the generated envelope itself - no choice is drawn.
    let spec = {
        let h = crate::src::fnv(&spec_model(&spec).tagged());
        if h % 10 == 0 {
            ctx.class("deeply-wrapped(33-40)");
            let mut s = spec;
            for _ in 0..33 + (h / 10) % 8 {
                s = gen::Spec::Wrapped(Box::new(s));
            }
            s
        } else {
            spec
        }
    };
    let model = spec_model(&spec);
    ctx.fingerprint(&model.tagged());
    ctx.sample_with(|| model.show());
    let e = nopanic!(ctx, build_a(&spec, &mut src), "build", "C14/build");
    let m = tryp!(ctx, bridge::read_out(&e), "readout", "C14/readout");

    let mut family: Vec<(String, Envelope)> = vec![("original".into(), e.clone())];
    // same target set under the three actions + encrypted twice
    let t0 = gen::gen_targets(&mut src, &m, false);
    let r0 = src.chance(64);
    for d in &t0 {
        ctx.fingerprint(d);
    }
    for (name, act) in [("T0-elide", Obs::Elide), ("T0-encrypt", Obs::Encrypt), ("T0-encrypt-again", Obs::Encrypt), ("T0-compress", Obs::Compress)] {
        let v = nopanic!(ctx, apply_elide(&e, &t0, r0, act, 0), "variant", "C14/variant");
        family.push((name.into(), v));
    }
    // more variants, some derived from variants
    let extra = 1 + src.below(3);
    for i in 0..extra {
        let base_i = src.below(family.len());
        let base = family[base_i].1.clone();
        let bm = tryp!(ctx, bridge::read_out(&base), "readout", "C14/readout");
        let reveal = src.chance(64);
        let t = if reveal { gen::gen_reveal_targets(&mut src, &bm) } else { gen::gen_targets(&mut src, &bm, true) };
        let act = gen_obs(&mut src);
        let v = nopanic!(ctx, apply_elide(&base, &t, reveal, act, src.below(7)), "variant", "C14/variant");
        family.push((format!("variant{}-of-{}", i, base_i), v));
    }
    // re-decoded copies
    let n0 = family.len();
    for i in 0..n0 {
        let d = nopanic!(ctx, Envelope::try_from_cbor_data(family[i].1.to_cbor_data()), "copy", "C14/copy");
        let d = tryp!(ctx, d.map_err(|x| x.to_string()), "copy", "C14/copy");
        family.push((format!("copy-of-{}", i), d));
    }
    family.push(("plus-one-assertion".into(), e.add_assertion("C14-extra", src.below(50) as u64)));
    family.push(("unrelated".into(), Envelope::new(format!("unrelated {}", src.below(100)))));
    if src.bool() {
        family.push(("unrelated-elided".into(), Envelope::new("another").add_assertion("a", "b").elide()));
    }

    // model view of every member
    let mut views: Vec<(M, Vec<(Vec<usize>, crate::model::CaseKind)>)> = Vec::new();
    for (_, x) in &family {
        let xm = tryp!(ctx, bridge::read_out(x), "readout", "C14/readout");
        let sig = xm.obscuration_signature();
        views.push((xm, sig));
    }
    let mut equiv_not_ident = 0;
    for i in 0..family.len() {
        for j in 0..family.len() {
            let (a, b) = (&family[i].1, &family[j].1);
            let want_eq = views[i].0.digest() == views[j].0.digest();
            let want_id = want_eq && views[i].1 == views[j].1;
            let got_eq = nopanic!(ctx, a.is_equivalent_to(b), "pair", "C14/equivalent");
            let got_id = nopanic!(ctx, a.is_identical_to(b), "pair", "C14/identical");
            let got_op = nopanic!(ctx, a == b, "pair", "C14/identical");
            check!(ctx, got_eq == want_eq, "pair", if got_eq { "C14/equivalent/false-positive" } else { "C14/equivalent/false-negative" }, "is_equivalent_to({}, {}) = {} but digests are {}", family[i].0, family[j].0, got_eq, if want_eq { "equal" } else { "different" });
            check!(ctx, got_id == want_id, "pair", if got_id { "C14/identical/false-positive" } else { "C14/identical/false-negative" }, "is_identical_to({}, {}) = {} but the model says {} (a = {}, b = {})", family[i].0, family[j].0, got_id, want_id, views[i].0.show(), views[j].0.show());
            check!(ctx, got_op == got_id, "pair", "C14/identical/eq-operator", "== disagrees with is_identical_to for ({}, {})", family[i].0, family[j].0);
            if got_id {
                check!(ctx, got_eq, "pair", "C14/identical/implies-equivalent", "identical but not equivalent");
            }
            // symmetry
            let back = nopanic!(ctx, b.is_identical_to(a), "pair", "C14/identical");
            check!(ctx, back == got_id, "pair", "C14/identical/symmetry", "is_identical_to is not symmetric for ({}, {})", family[i].0, family[j].0);
            if want_eq && !want_id && i < j {
                equiv_not_ident += 1;
            }
        }
        // reflexive
        check!(ctx, family[i].1.is_identical_to(&family[i].1) && family[i].1.is_equivalent_to(&family[i].1), "pair", "C14/identical/reflexive", "{} is not identical to itself", family[i].0);
    }
    ctx.count("pairs", (family.len() * family.len()) as u64);
    // copies are identical to their sources
    for i in 0..n0 {
        check!(ctx, family[i].1.is_identical_to(&family[n0 + i].1), "copy", "C14/copy/not-identical", "{} is not identical to its re-decoded copy", family[i].0);
    }
    // obscuring something that changes a case: equivalent and not identical
    for i in 1..n0 {
        if family[i].0.starts_with("T0-") {
            let changed = views[i].1 != views[0].1;
            check!(ctx, family[i].1.is_equivalent_to(&e), "obscure", "C14/obscure/not-equivalent", "an obscured variant is not equivalent to the original");
            if changed {
                check!(ctx, !family[i].1.is_identical_to(&e), "obscure", "C14/obscure/identical", "variant {} with a different obscuration pattern is identical to the original {}", family[i].0, m.show());
            }
        }
    }
    // transitivity on sampled triples
    for _ in 0..20 {
        let (a, b, c) = (src.below(family.len()), src.below(family.len()), src.below(family.len()));
        let ab = family[a].1.is_identical_to(&family[b].1);
        let bc = family[b].1.is_identical_to(&family[c].1);
        let ac = family[a].1.is_identical_to(&family[c].1);
        check!(ctx, !(ab && bc) || ac, "triple", "C14/identical/transitive", "identity is not transitive over ({}, {}, {})", family[a].0, family[b].0, family[c].0);
        let eab = family[a].1.is_equivalent_to(&family[b].1);
        let ebc = family[b].1.is_equivalent_to(&family[c].1);
        let eac = family[a].1.is_equivalent_to(&family[c].1);
        check!(ctx, !(eab && ebc) || eac, "triple", "C14/equivalent/transitive", "equivalence is not transitive");
    }
    ctx.count("equivalent-not-identical-pairs", equiv_not_ident);
    ctx.nontrivial = equiv_not_ident >= 1;
    Outcome::Pass
}
