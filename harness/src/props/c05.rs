//! C05 — serialisation round-trips exactly.

use crate::bridge::{self, agree, build_a, spec_model};
use crate::engine::{Ctx, Outcome, Prop};
use crate::gen::{self, GenCfg};
use crate::model::M;
use crate::props::c01::leaf_types;
use crate::src::Src;
use crate::{check, nopanic, tryp};
use bc_envelope::prelude::*;

pub fn prop() -> Prop {
    Prop {
        id: "C05",
        run,
        max_len: 600,
        quick: 250_000,
        thorough: 3_000_000,
        rule: "choice sequence -> envelope over the typed leaf zoo (ints at every width boundary, negatives to -2^64, f32/f64 incl. reducible, subnormal, inf, NaN, NFC text, byte strings, bool/null, arrays, maps, tagged, dates, digests, embedded envelopes) and all obscuration patterns, built by route A (typed constructors); oracle: decode(encode(e)) is Ok, position-wise equal to the original as read through case() (case, digest, leaf bytes, compressed blob, ciphertext bytes), is_identical_to, re-encodes to the same bytes; the bytes equal the harness encoder's prediction for the generated spec; same through tagged_cbor -> try_from_cbor, UR string and untagged CBOR. non-trivial: >=2 distinct leaf types or >=1 obscured element; distinct by FNV-64 of the encoding; 1 case in 18 repeats the round trip after 320 refused decodes on the same thread",
        assumptions: &["bc-ur bytewords codec is correct (UR route)", "ciphertext nonces of library-made encryptions are random; their bytes are compared between original and decoded copy, not predicted"],
        extra: None,
    }
}

fn raw_blobs_equal(a: &M, b: &M) -> bool {
    // strict equality including ciphertext bytes
    a == b
}

pub fn run(data: &[u8], ctx: &mut Ctx) -> Outcome {
    let mut src = Src::new(data);
    let mut cfg = GenCfg::new(5, 40);
    let spec = gen::gen_spec(&mut src, &mut cfg);
    let model = spec_model(&spec);
    ctx.fingerprint(&model.tagged());
    ctx.sample_with(|| model.show());
    leaf_types(&spec, ctx);
    let e = nopanic!(ctx, build_a(&spec, &mut src), "build", "C05/build");
    let m = tryp!(ctx, bridge::read_out(&e), "readout", "C05/readout");
    tryp!(ctx, agree(&m, &model).map_err(|s| format!("built value vs generated spec: {}", s)), "build", "C05/build");

    // encode
    let b = nopanic!(ctx, e.to_cbor_data(), "encode", "C05/encode");
    // the spec encoding of the read-out structure (ciphertext bytes as the library made them)
    check!(ctx, b == m.tagged(), "encode", "C05/encode", "to_cbor_data() differs from the specification encoding: lib {} spec {}", hex::encode(&b), hex::encode(m.tagged()));
    if model.count_obscured() == 0 {
        // fully predicted from the generated spec alone
        check!(ctx, b == model.tagged(), "encode", "C05/encode", "bytes differ from the encoding predicted from the generated values: lib {} spec {}", hex::encode(&b), hex::encode(model.tagged()));
        ctx.class("bytes-predicted-from-spec");
    }

    // decode
    let d = nopanic!(ctx, Envelope::try_from_cbor_data(b.clone()), "decode", "C05/decode");
    let d = tryp!(ctx, d.map_err(|x| format!("decoding the library's own encoding failed: {} ({})", x, hex::encode(&b))), "decode", "C05/decode");
    let dm = tryp!(ctx, bridge::read_out(&d), "readout", "C05/readout");
    check!(ctx, raw_blobs_equal(&dm_sorted(&dm), &dm_sorted(&m)), "decode", "C05/decode", "decoded envelope differs from the original: {} vs {}", dm.show(), m.show());
    check!(ctx, nopanic!(ctx, d.is_identical_to(&e), "decode", "C05/identical"), "decode", "C05/identical", "decoded envelope is not is_identical_to the original {}", m.show());
    check!(ctx, nopanic!(ctx, d == e, "decode", "C05/identical"), "decode", "C05/identical", "decoded envelope != original {}", m.show());
    let b2 = nopanic!(ctx, d.to_cbor_data(), "re-encode", "C05/re-encode");
    check!(ctx, b2 == b, "re-encode", "C05/re-encode", "re-encoding differs: {} vs {}", hex::encode(&b2), hex::encode(&b));

    // tagged CBOR value route
    let c = nopanic!(ctx, e.tagged_cbor(), "cbor-route", "C05/cbor-route");
    check!(ctx, c.to_cbor_data() == b, "cbor-route", "C05/cbor-route", "tagged_cbor().to_cbor_data() differs from to_cbor_data()");
    let d2 = nopanic!(ctx, Envelope::try_from_cbor(c), "cbor-route", "C05/cbor-route");
    let d2 = tryp!(ctx, d2.map_err(|x| x.to_string()), "cbor-route", "C05/cbor-route");
    check!(ctx, d2.to_cbor_data() == b, "cbor-route", "C05/cbor-route", "try_from_cbor(tagged_cbor()) re-encodes differently");
    // untagged route
    let u = nopanic!(ctx, e.untagged_cbor(), "untagged-route", "C05/untagged-route");
    check!(ctx, u.to_cbor_data() == m.untagged(), "untagged-route", "C05/untagged-route", "untagged_cbor() differs from the specification encoding");
    let d3 = nopanic!(ctx, Envelope::from_untagged_cbor(u), "untagged-route", "C05/untagged-route");
    let d3 = tryp!(ctx, d3.map_err(|x| x.to_string()), "untagged-route", "C05/untagged-route");
    check!(ctx, d3.to_cbor_data() == b, "untagged-route", "C05/untagged-route", "from_untagged_cbor(untagged_cbor()) re-encodes differently");

    // UR route
    if src.chance(96) {
        let ur = nopanic!(ctx, e.ur_string(), "ur-route", "C05/ur-route");
        let d4 = nopanic!(ctx, Envelope::from_ur_string(&ur), "ur-route", "C05/ur-route");
        let d4 = tryp!(ctx, d4.map_err(|x| format!("from_ur_string failed: {}", x)), "ur-route", "C05/ur-route");
        check!(ctx, d4.to_cbor_data() == b, "ur-route", "C05/ur-route", "UR round trip re-encodes differently");
        check!(ctx, d4.is_identical_to(&e), "ur-route", "C05/ur-route", "UR round trip is not identical");
        ctx.class("ur-route");
    }
    // history independence (drawn last): decoding is a function of the bytes alone, so the round trip
    // holds just the same after this thread has been handed a few hundred inputs the decoder refuses
    // (well-formed dCBOR that is not an envelope: one-element node, bare integer as an assertion,
    // unknown tag, map of bare integers - each wrapped around this envelope's own encoding)
    if src.chance(14) {
        let u = m.untagged();
        let mut refused = 0usize;
        for i in 0..320usize {
            let mut bad: Vec<u8> = vec![0xd8, 0xc8];
            match i % 4 {
                0 => {
                    bad.push(0x81);
                    bad.extend(&u);
                }
                1 => {
                    bad.push(0x82);
                    bad.extend(&u);
                    bad.push((i / 4 % 24) as u8);
                }
                2 => {
                    bad.extend([0xda, 0x00, 0x01, 0x86, 0x9f]);
                    bad.extend(&u);
                }
                _ => {
                    bad.extend([0xa1, (i / 4 % 24) as u8, 0x00]);
                }
            }
            let r = nopanic!(ctx, Envelope::try_from_cbor_data(bad), "history", "C05/after-refused-inputs");
            if r.is_err() {
                refused += 1;
            }
        }
        ctx.class("after-refused-inputs");
        let again = nopanic!(ctx, Envelope::try_from_cbor_data(b.clone()), "history", "C05/after-refused-inputs");
        let again = tryp!(ctx, again.map_err(|x| format!("after {} refused inputs on this thread, decoding the envelope's own encoding fails: {} ({})", refused, x, hex::encode(&b))), "history", "C05/after-refused-inputs");
        check!(ctx, again.to_cbor_data() == b && again.is_identical_to(&e), "history", "C05/after-refused-inputs", "after {} refused inputs the decoded envelope differs", refused);
        let ur = nopanic!(ctx, e.ur_string(), "history", "C05/after-refused-inputs");
        let again = nopanic!(ctx, Envelope::from_ur_string(&ur), "history", "C05/after-refused-inputs");
        check!(ctx, again.is_ok(), "history", "C05/after-refused-inputs", "after {} refused inputs the UR string no longer decodes", refused);
    }
    if model.count_obscured() > 0 {
        ctx.class("obscured>=1");
    }
    let types: std::collections::BTreeSet<String> = ctx.classes.keys().filter(|k| k.starts_with("leaf:")).cloned().collect();
    ctx.nontrivial = types.len() >= 2 || model.count_obscured() > 0;
    Outcome::Pass
}

/// canonical form for strict structural equality (assertions sorted by digest)
fn dm_sorted(m: &M) -> M {
    match m {
        M::Node(s, a) => {
            let mut v: Vec<M> = a.iter().map(dm_sorted).collect();
            v.sort_by_key(|x| x.digest());
            M::Node(Box::new(dm_sorted(s)), v)
        }
        M::Assertion(p, o) => M::assertion(dm_sorted(p), dm_sorted(o)),
        M::Wrapped(i) => M::wrapped(dm_sorted(i)),
        other => other.clone(),
    }
}
