//! C20 — global registries and formatting are safe under concurrent use.
//!
//! Part A: a case is a *thread program* executed in a fresh child process (so that every case is a
//! first-use race); its results are compared with solo reference runs (two more child processes).
//! Part B (feature `mt`, separate build): an envelope shared between threads.

use crate::engine::{Ctx, Failure, Outcome, Prop, RunCfg};
use crate::gen::POOL;
use crate::src::Src;
use bc_envelope::prelude::*;
use bc_envelope::{known_values, Expression, ExpressionBehavior, Function, KnownValue, Parameter, Request, Response, ResponseBehavior};
use std::collections::BTreeMap;
use std::io::Read;
use std::process::{Command, Stdio};
use std::sync::{Arc, Barrier};
use std::time::{Duration, Instant};

pub fn prop() -> Prop {
    Prop {
        id: "C20",
        run,
        max_len: 200,
        quick: 6_000,
        thorough: 200_000,
        rule: "Part A: choice sequence -> thread program: 2-16 threads, each 1-6 operations from {format, format_flat, tree_format(true|false), diagnostic_annotated, hex, register_tags, known-value lookup by name / by value through KNOWN_VALUES, function / parameter name lookup through GLOBAL_FUNCTIONS / GLOBAL_PARAMETERS, dcbor tag-name lookup} on 1-4 generated envelopes (known values, tagged leaves, dates, expressions, requests / responses, elided / encrypted / compressed parts), each operation preceded by a generated busy-wait of 0-50 us, all threads released by one barrier; EVERY CASE RUNS IN ITS OWN CHILD PROCESS, so all threads race on first-use initialisation (a second class registers tags before the barrier). oracle: the child exits within the watchdog, every thread joins without panic (a poisoned lock shows up as a panic of a later caller), and every result equals the text the same call returns alone, computed in two reference child processes (never-registered / registered-first): equal to the unregistered reference if the program has no register_tags, to the registered one if registration completed before the barrier, to either if a register_tags is racing. Part B (separate build with bc-envelope/multithreaded): a generated envelope is shared by 2-16 threads which compute digest, bytes, structural digest, element count, format and tree format and clone/drop sub-envelopes; all must equal the single-thread values. non-trivial: >=3 threads with >=2 distinct operation kinds; distinct by FNV-64 of the program; after a closing barrier each thread repeats one formatting call, which must equal the reference of the final registry state exactly; envelopes may hold array / map leaves whose elements are tagged values with summarizers (panicking date, key bundles, custom tag); one format call in four builds its envelope in place from typed values at the moment of the call; function / parameter lookups also render the value with Display while the registry guard is held",
        assumptions: &[
            "WEAK: schedules are sampled (jitter + fresh-process repetition), not enumerated; the harness does not own the scheduler and the locks of dcbor::GLOBAL_TAGS live in a dependency",
            "a child that does not finish within 20 s is a violation only if two /proc samples 1 s apart show every thread sleeping with no CPU time consumed (deadlock); otherwise the run is inconclusive (exit 2)",
        ],
        extra: Some(part_b),
    }
}

pub const OPS: [&str; 14] = ["format", "format_flat", "tree_format(true)", "tree_format(false)", "diagnostic_annotated", "hex", "register_tags", "known_value_by_name", "known_value_name", "function_name", "parameter_name", "tag_name", "register_custom_tag", "register_tags_in(private)+format_opt"];
pub const CUSTOM_TAG: u64 = 77777;

#[derive(Clone, Debug)]
pub struct Step {
    pub op: usize,
    pub env: usize,
    pub arg: usize,
    pub jitter_us: u64,
}

pub struct Program {
    pub envs: Vec<Envelope>,
    pub threads: Vec<Vec<Step>>,
    pub pre_register: bool,
}

fn gen_env(src: &mut Src) -> Envelope {
    let subject: Envelope = match src.below(9) {
        0 => Envelope::new(POOL[src.below(POOL.len())]),
        1 => Envelope::new(KnownValue::new(*src.pick(&[1u64, 2, 3, 50, 100, 9999]))),
        2 => Envelope::new(dcbor::Date::from_timestamp(1_600_000_000.0 + src.below(1000) as f64)),
        3 => {
            let f: Function = if src.bool() { Function::from(*src.pick(&[1u64, 2, 3, 4, 77])) } else { Function::from("myFunction") };
            let p: Parameter = if src.bool() { Parameter::from(*src.pick(&[1u64, 2, 3, 88])) } else { Parameter::from("myParam") };
            Expression::new(f).with_parameter(p, src.below(100) as u64).into()
        }
        4 => Request::new(Function::from(1u64), bc_components::ARID::from_data([src.byte(); 32])).into(),
        5 => Response::new_success(bc_components::ARID::from_data([src.byte(); 32])).with_result("done").into(),
        6 => Envelope::new(bc_components::Digest::from_image([src.byte()])),
        7 if src.chance(96) => {
            // "poison pill": a decodable leaf on which dcbor's date summarizer panics (known finding K6).
            // The call that formats it may panic; no OTHER call may be affected (no poisoned lock).
            Envelope::new(CBOR::to_tagged_value(1u64, 1.0e300))
        }
        _ => Envelope::new(CBOR::to_tagged_value(*src.pick(&[100u64, 40001, 40300, 32, CUSTOM_TAG, CUSTOM_TAG]), "tagged")),
    };
    let mut e = subject;
    for _ in 0..src.below(4) {
        let p: Envelope = if src.bool() { Envelope::new(KnownValue::new(*src.pick(&[1u64, 4, 16, 51, 500]))) } else { Envelope::new(POOL[src.below(POOL.len())]) };
        let o: Envelope = match src.below(4) {
            0 => {
                // mostly a number; one value in ten is an array / map leaf whose ELEMENTS are tagged values
                // with summarizers of their own (a date that makes the summarizer panic, key bundles whose
                // summarizers decode nested tagged CBOR)
                let n = src.below(1000);
                match n {
                    900..=929 => Envelope::new(CBOR::from(vec![CBOR::from("in an array"), CBOR::to_tagged_value(1u64, 1.0e300)])),
                    930..=959 => {
                        let pk = bc_components::PrivateKeyBase::from_data([n as u8; 32]).schnorr_public_keys();
                        Envelope::new(CBOR::from(vec![pk.tagged_cbor(), CBOR::from(n as u64)]))
                    }
                    960..=979 => {
                        // (everything here must be a function of the choice sequence: the reference processes
                        // rebuild the same envelopes)
                        let keys = bc_components::PrivateKeyBase::from_data([n as u8; 32]).ecdsa_public_keys();
                        let mut m = dcbor::Map::new();
                        m.insert(1u64, keys.tagged_cbor());
                        m.insert(2u64, bc_components::Digest::from_image([n as u8]).tagged_cbor());
                        Envelope::new(CBOR::from(m))
                    }
                    980..=999 => Envelope::new(CBOR::from(vec![CBOR::to_tagged_value(CUSTOM_TAG, "custom in an array"), bc_components::ARID::from_data([n as u8; 32]).tagged_cbor()])),
                    _ => Envelope::new(n as u64),
                }
            }
            1 => Envelope::new("text").wrap_envelope(),
            2 => Envelope::new(KnownValue::new(200)),
            _ => Envelope::new("x").add_assertion(known_values::NOTE, "inner"),
        };
        e = e.add_assertion(p, o);
    }
    match src.below(6) {
        0 => {
            let a = e.assertions();
            if a.is_empty() { e } else { e.elide_removing_target(&a[src.below(a.len())]) }
        }
        1 => e.compress_subject().unwrap_or(e),
        2 => e.encrypt_subject_opt(&crate::bridge::case_key(), Some(bc_components::Nonce::from_data_ref([7u8; 12]).unwrap())).unwrap_or(e),
        _ => e,
    }
}

pub fn decode_program(data: &[u8]) -> Program {
    let mut src = Src::new(data);
    let pre_register = src.chance(50);
    let n_env = 1 + src.below(4);
    let n_threads = 2 + src.below(15);
    let mut threads = Vec::new();
    for _ in 0..n_threads {
        let n = 1 + src.below(6);
        let mut steps = Vec::new();
        for _ in 0..n {
            let op = src.weighted(&[14, 10, 10, 8, 8, 6, 10, 8, 8, 6, 6, 6, 7, 8]);
            steps.push(Step { op, env: src.below(n_env), arg: src.below(8), jitter_us: src.below(51) as u64 });
        }
        threads.push(steps);
    }
    // envelopes last: thread structure is decided by the first bytes of the sequence
    let envs = (0..n_env).map(|_| gen_env(&mut src)).collect();
    Program { envs, threads, pre_register }
}

/// The bytes of the running program: lets a step build its envelope afresh, at the moment of the call
/// (an envelope built from typed values may capture registry state at construction; a decoded one cannot).
pub static PROGRAM_BYTES: std::sync::OnceLock<Vec<u8>> = std::sync::OnceLock::new();

pub fn run_step(e: &Envelope, s: &Step) -> String {
    match s.op {
        // one format call in four works on an envelope built in place, just now, from typed values
        0 if s.arg % 4 == 3 && PROGRAM_BYTES.get().is_some() => {
            let p = decode_program(PROGRAM_BYTES.get().unwrap());
            p.envs[s.env % p.envs.len()].format()
        }
        0 => e.format(),
        1 => e.format_flat(),
        2 => e.tree_format(true),
        3 => e.tree_format(false),
        4 => e.diagnostic_annotated(),
        5 => e.hex(),
        6 => {
            bc_envelope::register_tags();
            "registered".to_string()
        }
        7 => {
            let names = ["isA", "signed", "note", "salt", "attachment", "no-such-known-value", "date", "OK"];
            let b = bc_envelope::KNOWN_VALUES.get();
            let store = b.as_ref().unwrap();
            format!("{:?}", store.known_value_named(names[s.arg % names.len()]).map(|k| k.value()))
        }
        8 => {
            let vals = [1u64, 3, 4, 15, 50, 424242, 16, 103];
            let b = bc_envelope::KNOWN_VALUES.get();
            let store = b.as_ref().unwrap();
            store.name(KnownValue::new(vals[s.arg % vals.len()]))
        }
        9 => {
            let f = Function::from([1u64, 2, 3, 4, 5, 99, 12, 0][s.arg % 8]);
            let b = bc_envelope::functions::GLOBAL_FUNCTIONS.get();
            let store = b.as_ref().unwrap();
            // the value's own Display is used while the registry is being consulted, and again afterwards
            let shown = format!("{}", f);
            let name = store.name(&f);
            drop(b);
            format!("{} / {} / {}", name, shown, f)
        }
        10 => {
            let p = Parameter::from([1u64, 2, 3, 4, 5, 99, 12, 0][s.arg % 8]);
            let b = bc_envelope::parameters::GLOBAL_PARAMETERS.get();
            let store = b.as_ref().unwrap();
            let shown = format!("{}", p);
            let name = store.name(&p);
            drop(b);
            format!("{} / {} / {}", name, shown, p)
        }
        13 => {
            // a caller-owned context: register the standard tags in it and format with it. Touches no global
            // format context, but may consult the global registries while other threads initialise them.
            let mut private = bc_envelope::FormatContext::default();
            bc_envelope::register_tags_in(&mut private);
            e.format_opt(Some(&private))
        }
        12 => {
            // a caller's own registration in the global format context (what register_tags() does for the
            // standard tags): must survive whatever other threads do, in particular a racing register_tags()
            bc_envelope::with_format_context_mut!(|context: &mut bc_envelope::FormatContext| {
                dcbor::TagsStore::insert(context.tags_mut(), dcbor::Tag::new(CUSTOM_TAG, "verifCustom"));
                dcbor::TagsStore::set_summarizer(context.tags_mut(), CUSTOM_TAG, Arc::new(|_untagged: CBOR| Ok("<<custom summary>>".to_string())));
            });
            "custom-registered".to_string()
        }
        _ => {
            let vals = [200u64, 201, 40000, 40001, 1, 40012, 77777, 24];
            dcbor::with_tags!(|tags: &dcbor::TagsStore| dcbor::TagsStoreTrait::name_for_value(tags, vals[s.arg % vals.len()]))
        }
    }
}

/// The call a thread repeats after the closing barrier: its first formatting step, or `format` of an
/// envelope if it has none. By then every registration of the program has completed, so the call runs
/// in one known registry state.
pub const EPILOGUE: usize = 1000;
pub fn epilogue_step(prog: &Program, ti: usize) -> Step {
    prog.threads[ti].iter().find(|s| s.op <= 4).cloned().unwrap_or(Step { op: 0, env: ti % prog.envs.len(), arg: 0, jitter_us: 0 })
}

fn busy_wait(us: u64) {
    let t = Instant::now();
    while t.elapsed() < Duration::from_micros(us) {
        std::hint::spin_loop();
    }
}

/// Child process entry: `mode` = race | solo-unreg | solo-reg. Prints one line per result.
pub fn child_main(mode: &str, hex_program: &str) -> i32 {
    let data = match hex::decode(hex_program) {
        Ok(d) => d,
        Err(_) => return 3,
    };
    // decoding builds envelopes, which may touch the registries: in race mode that is part of the
    // experiment's prologue and identical in the reference runs.
    let _ = PROGRAM_BYTES.set(data.clone());
    let prog = decode_program(&data);
    let envs_bytes: Vec<Vec<u8>> = prog.envs.iter().map(|e| e.to_cbor_data()).collect();
    match mode {
        "solo-unreg" | "solo-reg" | "solo-unreg-custom" | "solo-reg-custom" => {
            // Reference results: each call "run alone". The registries have three states a call can find:
            // S0 nothing initialised, S1 format context initialised (which registers the bc-components
            // tags in dcbor's global store), S2 register_tags() done. Only the dcbor tag-name lookup
            // can tell S0 from S1, so it is evaluated before anything else (S0) and again at the end (S1).
            if mode.starts_with("solo-reg") {
                bc_envelope::register_tags();
            }
            let with_custom = mode.ends_with("-custom");
            // like the racing threads, work on decoded copies (a decoded known value carries no assigned name)
            let envs: Vec<Envelope> = envs_bytes.iter().map(|x| Envelope::try_from_cbor_data(x.clone()).unwrap()).collect();
            let emit = |ti: usize, si: usize, s: &Step| {
                let r = std::panic::catch_unwind(std::panic::AssertUnwindSafe(|| run_step(&envs[s.env], s)));
                match r {
                    Ok(t) => println!("R {} {} {}", ti, si, hex::encode(t)),
                    Err(p) => {
                        let msg = p.downcast_ref::<String>().cloned().or_else(|| p.downcast_ref::<&str>().map(|s| s.to_string())).unwrap_or_default();
                        println!("P {} {} {}", ti, si, hex::encode(msg));
                    }
                }
            };
            for pass in 0..3 {
                if pass == 2 {
                    // make sure the format context is initialised (S1) before the second tag-name pass
                    let _ = std::panic::catch_unwind(|| Envelope::new("init").format());
                }
                if pass == 1 && with_custom {
                    // the custom registration is in place before any formatting call (it initialises the
                    // format context, so the S0 pass of the tag-name lookups comes first)
                    let _ = run_step(&envs[0], &Step { op: 12, env: 0, arg: 0, jitter_us: 0 });
                }
                if pass == 1 {
                    for ti in 0..prog.threads.len() {
                        emit(ti, EPILOGUE, &epilogue_step(&prog, ti));
                    }
                }
                for (ti, steps) in prog.threads.iter().enumerate() {
                    for (si, s) in steps.iter().enumerate() {
                        if s.op == 6 || s.op == 12 {
                            if pass == 0 {
                                println!("R {} {} {}", ti, si, hex::encode(if s.op == 6 { "registered" } else { "custom-registered" }));
                            }
                            continue;
                        }
                        let is_tag = s.op == 11;
                        if (pass == 0 && is_tag) || (pass == 1 && !is_tag) || (pass == 2 && is_tag) {
                            emit(ti, si, s);
                        }
                    }
                }
            }
            0
        }
        _ => {
            if prog.pre_register {
                bc_envelope::register_tags();
            }
            let n = prog.threads.len();
            let barrier = Arc::new(Barrier::new(n));
            let mut handles = Vec::new();
            for (ti, steps) in prog.threads.iter().enumerate() {
                let steps = steps.clone();
                let b = barrier.clone();
                let eb = envs_bytes.clone();
                let epi = epilogue_step(&prog, ti);
                handles.push(std::thread::spawn(move || {
                    // each thread decodes its own copies (Envelope is not Send without the feature)
                    let envs: Vec<Envelope> = eb.iter().map(|x| Envelope::try_from_cbor_data(x.clone()).unwrap()).collect();
                    b.wait();
                    let mut out = Vec::new();
                    for (si, s) in steps.iter().enumerate() {
                        busy_wait(s.jitter_us);
                        let r = std::panic::catch_unwind(std::panic::AssertUnwindSafe(|| run_step(&envs[s.env], s)));
                        match r {
                            Ok(t) => out.push(format!("R {} {} {}", ti, si, hex::encode(t))),
                            Err(p) => {
                                let msg = p.downcast_ref::<String>().cloned().or_else(|| p.downcast_ref::<&str>().map(|s| s.to_string())).unwrap_or_default();
                                out.push(format!("P {} {} {}", ti, si, hex::encode(msg)));
                            }
                        }
                    }
                    // closing barrier: every registration has completed; one more call in a known state
                    b.wait();
                    let r = std::panic::catch_unwind(std::panic::AssertUnwindSafe(|| run_step(&envs[epi.env], &epi)));
                    match r {
                        Ok(t) => out.push(format!("R {} {} {}", ti, EPILOGUE, hex::encode(t))),
                        Err(p) => {
                            let msg = p.downcast_ref::<String>().cloned().or_else(|| p.downcast_ref::<&str>().map(|s| s.to_string())).unwrap_or_default();
                            out.push(format!("P {} {} {}", ti, EPILOGUE, hex::encode(msg)));
                        }
                    }
                    out
                }));
            }
            for (ti, h) in handles.into_iter().enumerate() {
                match h.join() {
                    Ok(lines) => {
                        for l in lines {
                            println!("{}", l);
                        }
                    }
                    Err(_) => println!("J {} thread-did-not-join-cleanly", ti),
                }
            }
            0
        }
    }
}

enum ChildResult {
    Done(Vec<String>),
    Deadlock,
    Inconclusive(String),
}

fn sample_threads(pid: u32) -> Option<Vec<(String, u64)>> {
    let mut v = Vec::new();
    let rd = std::fs::read_dir(format!("/proc/{}/task", pid)).ok()?;
    for t in rd.flatten() {
        let s = std::fs::read_to_string(t.path().join("stat")).ok()?;
        // fields after the command (which may contain spaces) start after the last ')'
        let rest = &s[s.rfind(')')? + 2..];
        let f: Vec<&str> = rest.split_whitespace().collect();
        let state = f.first()?.to_string();
        let utime: u64 = f.get(11)?.parse().ok()?;
        let stime: u64 = f.get(12)?.parse().ok()?;
        v.push((state, utime + stime));
    }
    Some(v)
}

fn run_child(mode: &str, hex_program: &str) -> ChildResult {
    let exe = match std::env::current_exe() {
        Ok(e) => e,
        Err(e) => return ChildResult::Inconclusive(format!("current_exe: {}", e)),
    };
    let mut child = match Command::new(exe).arg("--c20-child").arg(mode).arg(hex_program).stdout(Stdio::piped()).stderr(Stdio::null()).spawn() {
        Ok(c) => c,
        Err(e) => return ChildResult::Inconclusive(format!("spawn: {}", e)),
    };
    let pid = child.id();
    let t0 = Instant::now();
    let watchdog = Duration::from_secs(20);
    // drain the child's stdout concurrently: a child that fills the pipe would otherwise block in
    // write() and look like a deadlock
    let mut so = child.stdout.take().expect("piped stdout");
    let reader = std::thread::spawn(move || {
        let mut out = String::new();
        let _ = so.read_to_string(&mut out);
        out
    });
    loop {
        match child.try_wait() {
            Ok(Some(status)) => {
                let out = reader.join().unwrap_or_default();
                let mut lines: Vec<String> = out.lines().map(|s| s.to_string()).collect();
                if !status.success() {
                    lines.push(format!("X abnormal-exit {:?}", status.code()));
                }
                return ChildResult::Done(lines);
            }
            Ok(None) => {
                if t0.elapsed() > watchdog {
                    let a = sample_threads(pid);
                    std::thread::sleep(Duration::from_secs(1));
                    let b = sample_threads(pid);
                    let _ = child.kill();
                    let _ = child.wait();
                    let _ = reader.join();
                    return match (a, b) {
                        (Some(a), Some(b)) if a.len() == b.len() && a.iter().zip(b.iter()).all(|(x, y)| (x.0 == "S" || x.0 == "D") && x.0 == y.0 && x.1 == y.1) => ChildResult::Deadlock,
                        _ => ChildResult::Inconclusive("child did not finish within 20 s but its threads are not all asleep (overloaded machine?)".into()),
                    };
                }
                std::thread::sleep(Duration::from_micros(300));
            }
            Err(e) => return ChildResult::Inconclusive(format!("wait: {}", e)),
        }
    }
}

fn parse_results(lines: &[String]) -> BTreeMap<(usize, usize), Vec<(char, String)>> {
    let mut m: BTreeMap<(usize, usize), Vec<(char, String)>> = BTreeMap::new();
    for l in lines {
        let f: Vec<&str> = l.split(' ').collect();
        if f.len() >= 4 && (f[0] == "R" || f[0] == "P") {
            if let (Ok(t), Ok(s)) = (f[1].parse(), f[2].parse()) {
                let text = hex::decode(f[3]).ok().and_then(|b| String::from_utf8(b).ok()).unwrap_or_else(|| f[3].to_string());
                m.entry((t, s)).or_default().push((f[0].chars().next().unwrap(), text));
            }
        }
    }
    m
}

/// Set once a deadlock has been seen in this process: every further evaluation would cost 20 s or more
/// per child process (shrinking a deadlocking program can take hours), so the search stops evaluating and
/// the program that deadlocked is reported as it is.
static DEADLOCK_SEEN: std::sync::atomic::AtomicBool = std::sync::atomic::AtomicBool::new(false);

pub fn run(data: &[u8], ctx: &mut Ctx) -> Outcome {
    if DEADLOCK_SEEN.load(std::sync::atomic::Ordering::SeqCst) {
        return Outcome::Pass;
    }
    let prog = decode_program(data);
    let hexp = hex::encode(data);
    ctx.fingerprint(data);
    let has_register = prog.threads.iter().flatten().any(|s| s.op == 6);
    let has_custom = prog.threads.iter().flatten().any(|s| s.op == 12);
    if has_custom {
        ctx.class("custom-tag-registration");
    }
    let class = if prog.pre_register { "registered-before-barrier" } else if has_register { "register-racing" } else { "never-registered" };
    ctx.class(class);
    ctx.class(&format!("threads:{}", match prog.threads.len() { 2..=3 => "2-3", 4..=7 => "4-7", _ => "8-16" }));
    let kinds: std::collections::BTreeSet<usize> = prog.threads.iter().flatten().map(|s| s.op).collect();
    for k in &kinds {
        ctx.class(&format!("op:{}", OPS[*k]));
    }
    ctx.sample_with(|| {
        format!(
            "{} threads ({}): {}",
            prog.threads.len(),
            class,
            prog.threads.iter().map(|t| format!("[{}]", t.iter().map(|s| format!("{}@e{}+{}us", OPS[s.op], s.env, s.jitter_us)).collect::<Vec<_>>().join(", "))).collect::<Vec<_>>().join(" | ")
        )
    });
    let fail = |ctx: &mut Ctx, sub: &str, key: &str, msg: String| -> Outcome {
        match ctx.fail(sub, key, msg) {
            Some(f) => Outcome::Fail(f),
            None => Outcome::Pass,
        }
    };
    // reference runs
    let refs: Vec<BTreeMap<(usize, usize), Vec<(char, String)>>> = {
        let mut v = Vec::new();
        for mode in ["solo-unreg", "solo-reg", "solo-unreg-custom", "solo-reg-custom"] {
            match run_child(mode, &hexp) {
                ChildResult::Done(lines) => v.push(parse_results(&lines)),
                ChildResult::Deadlock => {
                    DEADLOCK_SEEN.store(true, std::sync::atomic::Ordering::SeqCst);
                    return fail(ctx, "reference", "C20/solo-deadlock", format!("the {} reference run (one thread) deadlocked", mode));
                }
                ChildResult::Inconclusive(why) => {
                    eprintln!("harness: C20 inconclusive: {}", why);
                    std::process::exit(2);
                }
            }
        }
        v
    };
    let race = match run_child("race", &hexp) {
        ChildResult::Done(lines) => lines,
        ChildResult::Deadlock => {
            DEADLOCK_SEEN.store(true, std::sync::atomic::Ordering::SeqCst);
            return fail(ctx, "completion", "C20/deadlock", "the thread program did not complete: every thread is asleep and consumes no CPU (deadlock)".into());
        }
        ChildResult::Inconclusive(why) => {
            eprintln!("harness: C20 inconclusive: {}", why);
            std::process::exit(2);
        }
    };
    for l in &race {
        if l.starts_with("J ") || l.starts_with("X ") {
            return fail(ctx, "completion", "C20/abnormal", format!("thread program ended abnormally: {}", l));
        }
    }
    let got = parse_results(&race);
    let total: usize = prog.threads.iter().map(|t| t.len() + 1).sum();
    if got.len() != total {
        return fail(ctx, "completion", "C20/missing-results", format!("{} of {} operations reported a result", got.len(), total));
    }
    for ((t, s), results) in &got {
        let epilogue = *s == EPILOGUE;
        let epi = epilogue_step(&prog, *t);
        let step = if epilogue { &epi } else { &prog.threads[*t][*s] };
        let (tag, text) = &results[0];
        // "panics alone" = panics in both solo runs with a message of its own (a PoisonError is never a
        // call's own panic: a fresh process has no poisoned lock unless an earlier call left one behind)
        let own_panic = |r: &BTreeMap<(usize, usize), Vec<(char, String)>>| r.get(&(*t, *s)).map(|v| v.iter().any(|x| x.0 == 'P' && !x.1.contains("PoisonError"))).unwrap_or(false);
        let solo_panics = refs.iter().all(|r| own_panic(r));
        if *tag == 'P' && solo_panics && !text.contains("PoisonError") {
            // the call panics when run alone as well (dependency defect K6): not a concurrency matter
            ctx.class("call-that-panics-alone");
            continue;
        }
        if solo_panics {
            // alone it panics, here it returned: nothing to compare with
            continue;
        }
        if *tag == 'P' {
            let key = if text.contains("PoisonError") { "C20/poisoned-lock" } else { "C20/panic" };
            return fail(ctx, "panic", key, format!("{} in thread {} panicked under concurrency: {}", OPS[step.op], t, text));
        }
        let results_of = |r: &BTreeMap<(usize, usize), Vec<(char, String)>>| -> Vec<String> { r.get(&(*t, *s)).map(|v| v.iter().map(|x| x.1.clone()).collect()).unwrap_or_default() };
        // which registry states may this call legitimately find?
        let reg_states: &[bool] = if prog.pre_register { &[true] } else if has_register { &[false, true] } else { &[false] };
        let own_custom_before = !epilogue && prog.threads[*t][..*s].iter().any(|x| x.op == 12);
        let custom_states: &[bool] = if own_custom_before || (epilogue && has_custom) { &[true] } else if has_custom { &[false, true] } else { &[false] };
        // after the closing barrier every register_tags() of the program has returned
        let reg_states: &[bool] = if epilogue && has_register { &[true] } else { reg_states };
        if epilogue {
            ctx.class("epilogue-after-closing-barrier");
        }
        let mut allowed: Vec<String> = Vec::new();
        for r in reg_states {
            for cu in custom_states {
                let idx = (*r as usize) + 2 * (*cu as usize);
                allowed.extend(results_of(&refs[idx]));
            }
        }
        let unreg = results_of(&refs[0]);
        let reg = results_of(&refs[1]);
        let ok = allowed.contains(text);
        if !ok {
            return fail(
                ctx,
                "result",
                &format!("C20/result-differs/{}", OPS[step.op]),
                format!("{} on envelope #{} in thread {} returned {:?} under concurrency; alone it returns {:?} (tags registered) / {:?} (not registered); acceptable here: {:?}; program class {}{}{}", OPS[step.op], step.env, t, text, reg, unreg, allowed, class, if own_custom_before { ", after this thread's own custom tag registration" } else { "" }, if epilogue { ", call made after the closing barrier (every registration of the program had returned)" } else { "" }),
            );
        }
    }
    ctx.nontrivial = prog.threads.len() >= 3 && kinds.len() >= 2;
    Outcome::Pass
}

// ---------------------------------------------------------------------------------------------
// Part B — driven from the default build: runs the `mt` build of this harness if it exists.

fn part_b(cfg: &RunCfg, cov: &mut BTreeMap<String, serde_json::Value>) -> Result<(), (Failure, Vec<u8>)> {
    let exe = cfg.verif_dir.join("harness").join("target-mt").join("release").join("envverif");
    if !exe.exists() {
        cov.insert("part_b".into(), serde_json::json!("not run: harness/target-mt/release/envverif not built (./check builds it for C20)"));
        return Ok(());
    }
    let cases = if cfg.thorough { 6000 } else { 400 };
    let out = Command::new(&exe).arg("--c20-part-b").arg(cases.to_string()).arg(cfg.seed.to_string()).output();
    match out {
        Ok(o) => {
            let text = String::from_utf8_lossy(&o.stdout).to_string();
            let last = text.lines().last().unwrap_or("").to_string();
            if o.status.success() {
                cov.insert("part_b".into(), serde_json::json!(last));
                Ok(())
            } else if o.status.code() == Some(1) {
                let data = text.lines().find_map(|l| l.strip_prefix("CASE ")).map(|h| hex::decode(h).unwrap_or_default()).unwrap_or_default();
                Err((Failure { sub: "part-b".into(), key: "C20/mt-disagrees".into(), msg: last }, data))
            } else {
                eprintln!("harness: C20 part B inconclusive: {}", text);
                std::process::exit(2);
            }
        }
        Err(e) => {
            eprintln!("harness: C20 part B could not run: {}", e);
            std::process::exit(2);
        }
    }
}

/// Part B body (only meaningful in the `mt` build, where Envelope is Send + Sync).
#[cfg(feature = "mt")]
pub fn part_b_main(cases: u64, seed: u64) -> i32 {
    use bc_components::DigestProvider;
    use proptest::collection::vec;
    use proptest::prelude::*;
    use proptest::test_runner::{Config, RngAlgorithm, TestRng, TestRunner};
    bc_envelope::register_tags();
    std::panic::set_hook(Box::new(|_| {}));
    let skipped_k6 = std::cell::Cell::new(0u64);
    let mut config = Config::default();
    config.cases = cases as u32;
    config.failure_persistence = None;
    config.max_shrink_iters = 200;
    let mut s = [0u8; 32];
    s[..8].copy_from_slice(&seed.to_le_bytes());
    s[8] = 0xb;
    let mut runner = TestRunner::new_with_rng(config, TestRng::from_seed(RngAlgorithm::ChaCha, &s));
    let nontrivial = std::cell::RefCell::new(std::collections::HashSet::new());
    let r = runner.run(&vec(any::<u8>(), 0..=400), |data| {
        let mut src = Src::new(&data);
        let n_threads = 2 + src.below(15);
        let mut cfg = crate::gen::GenCfg::new(4, 30);
        let spec = crate::gen::gen_spec(&mut src, &mut cfg);
        let e = crate::bridge::build_a(&spec, &mut src);
        // an envelope on which formatting panics when run alone (dependency defect K6: out-of-range
        // #6.1 leaf) has no solo reference to agree with: skipped and counted
        let expect = match std::panic::catch_unwind(std::panic::AssertUnwindSafe(|| (e.digest().into_owned(), e.to_cbor_data(), e.structural_digest(), e.elements_count(), e.format(), e.tree_format(false)))) {
            Ok(x) => x,
            Err(_) => {
                skipped_k6.set(skipped_k6.get() + 1);
                return Ok(());
            }
        };
        let shared = Arc::new(e);
        let barrier = Arc::new(Barrier::new(n_threads));
        let mut hs = Vec::new();
        for t in 0..n_threads {
            let e = shared.clone();
            let b = barrier.clone();
            let iters = 1 + (t % 3);
            hs.push(std::thread::spawn(move || {
                b.wait();
                let mut outs = Vec::new();
                for _ in 0..iters {
                    let sub: Vec<Envelope> = e.assertions();
                    let c = (*e).clone();
                    outs.push((c.digest().into_owned(), c.to_cbor_data(), c.structural_digest(), c.elements_count(), c.format(), c.tree_format(false)));
                    drop(sub);
                    let _ = e.subject().digest().into_owned();
                }
                outs
            }));
        }
        for h in hs {
            let outs = h.join().map_err(|_| TestCaseError::fail("a thread panicked"))?;
            for o in outs {
                if o != expect {
                    return Err(TestCaseError::fail("a thread computed a different digest / encoding / notation"));
                }
            }
        }
        if n_threads >= 3 {
            nontrivial.borrow_mut().insert(crate::src::fnv(&data));
        }
        Ok(())
    });
    match r {
        Ok(()) => {
            println!("part B: {} shared-envelope cases ({} skipped: formatting panics alone, K6), {} distinct with >=3 threads, all threads agree", cases, skipped_k6.get(), nontrivial.borrow().len());
            0
        }
        Err(proptest::test_runner::TestError::Fail(reason, data)) => {
            println!("CASE {}", hex::encode(&data));
            println!("part B: shared envelope disagreement: {}", reason.message());
            1
        }
        Err(e) => {
            println!("part B aborted: {:?}", e);
            2
        }
    }
}

#[cfg(not(feature = "mt"))]
pub fn part_b_main(_cases: u64, _seed: u64) -> i32 {
    println!("part B needs the `mt` feature build");
    2
}
