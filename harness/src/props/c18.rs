//! C18 — expression, request, response and event envelopes round-trip.

use crate::bridge::{self, build_a, spec_model};
use crate::cbor::{self, Item};
use crate::engine::{Ctx, Outcome, Prop};
use crate::gen::{self, GenCfg};
use crate::model::M;
use crate::src::Src;
use crate::{check, nopanic, tryp};
use bc_components::ARID;
use bc_envelope::prelude::*;
use bc_envelope::{known_values, Event, EventBehavior, Expression, ExpressionBehavior, Function, Parameter, Request, RequestBehavior, Response, ResponseBehavior};
use dcbor::Date;

pub fn prop() -> Prop {
    Prop {
        id: "C18",
        run,
        max_len: 500,
        quick: 200_000,
        thorough: 1_200_000,
        rule: "choice sequence -> function (known ids 0-15, large, named incl. registry names, empty, non-ASCII) x 0-5 parameters (known / named, repeated parameter, repeated pair) with values of every envelope kind (leaf zoo, known value, wrapped, node, assertion, obscured) x ARID x note (empty / non-empty / non-ASCII) x date (absent; integral +/-; dyadic fraction; from_ymd_hms; from_string) x kind {Expression, Request, Response success default / with result / failure / failure with error / early failure, Event<String>, Event<Envelope>, Event<Expression>}; malformed variants: second body/content/result/error, part removed, both result and error, subject retagged (request<->response<->event, untagged ARID, wrong inner type, other known value), non-string note, non-date date, body that is not an expression, expected function != actual. oracle: T::try_from(Envelope::from(v)) == v directly and after to_cbor_data -> decode, field by field besides PartialEq; the envelope equals the harness's model of the documented shape (subject #6.40004/5/26(ARID), 'body'/'content'/'result'/'error', 'note' iff non-empty, 'date' iff present, parameters as #6.40007 predicates); every malformed variant gives Err. non-trivial: >=1 parameter with a non-leaf value, or a malformed variant; distinct by FNV-64 of the envelope encoding; the None arms of with_optional_result / with_optional_error",
        assumptions: &["dates are drawn from the public constructors and only fixed points of dcbor's own Date <-> CBOR conversion are used (others are counted as excluded_dependency_date): a limitation of dcbor 0.17.1, outside /repo"],
        extra: None,
    }
}

fn gen_function(src: &mut Src) -> (Function, Item) {
    match src.below(6) {
        0 => {
            let v = src.below(16) as u64;
            (Function::from(v), Item::U(v))
        }
        1 => {
            let v = *src.pick(&[16u64, 255, 256, 65536, u32::MAX as u64, u64::MAX]);
            (Function::new_known(v, Some("named-known".into())), Item::U(v))
        }
        2 => (bc_envelope::functions::ADD, Item::U(1)),
        3 => {
            let n = *src.pick(&["add", "sub", "", "getKey", "日本語", "f n", "\"q\""]);
            (Function::from(n), Item::T(n.to_string()))
        }
        4 => (Function::new_static_named("static"), Item::T("static".into())),
        _ => {
            let n = format!("fn{}", src.below(1000));
            (Function::new_named(&n), Item::T(n))
        }
    }
}

fn gen_parameter(src: &mut Src) -> (Parameter, Item) {
    match src.below(5) {
        0 => {
            let v = src.below(6) as u64;
            (Parameter::from(v), Item::U(v))
        }
        1 => (bc_envelope::parameters::LHS, Item::U(2)),
        2 => {
            let v = *src.pick(&[255u64, 65536, u64::MAX]);
            (Parameter::new_known(v, Some("p".into())), Item::U(v))
        }
        3 => {
            let n = *src.pick(&["lhs", "", "param", "ünï"]);
            (Parameter::from(n), Item::T(n.to_string()))
        }
        _ => {
            let n = format!("p{}", src.below(4));
            (Parameter::new_named(&n), Item::T(n))
        }
    }
}

fn gen_arid(src: &mut Src) -> (ARID, Item) {
    let mut d = [0u8; 32];
    for b in d.iter_mut() {
        *b = src.byte();
    }
    (ARID::from_data(d), Item::Tag(40012, Box::new(Item::B(d.to_vec()))))
}

/// A date from a public constructor that is a fixed point of dcbor's own CBOR conversion.
fn gen_date(src: &mut Src, ctx: &mut Ctx) -> Option<Date> {
    let d = match src.below(6) {
        0 => return None,
        1 => Date::from_timestamp((src.u32() as i64 - (1i64 << 31)) as f64),
        2 => Date::from_timestamp(src.u32() as f64 + *src.pick(&[0.5, 0.25, 0.125, 0.75])),
        3 => Date::from_ymd_hms(1970 + src.below(130) as i32, 1 + src.below(12) as u32, 1 + src.below(28) as u32, src.below(24) as u32, src.below(60) as u32, src.below(60) as u32),
        4 => Date::from_ymd(1900 + src.below(300) as i32, 1 + src.below(12) as u32, 1 + src.below(28) as u32),
        _ => match Date::from_string(*src.pick(&["2024-07-04T11:11:11Z", "1999-12-31", "2038-01-19T03:14:08Z", "1965-05-15T01:02:03Z"])) {
            Ok(d) => d,
            Err(_) => return None,
        },
    };
    // fixed point of the dependency's conversion?
    let c: CBOR = d.clone().into();
    match Date::try_from(c) {
        Ok(back) if back == d => Some(d),
        _ => {
            ctx.class("excluded_dependency_date");
            None
        }
    }
}

fn date_model(d: &Date) -> M {
    // what dcbor emits for this date (the date's own encoding is the dependency's business)
    let c: CBOR = d.clone().into();
    M::Leaf(c.to_cbor_data())
}

struct Parts {
    function_item: Item,
    params: Vec<(Item, M)>,
}

fn expression_model(p: &Parts) -> M {
    let subject = M::leaf_item(&Item::Tag(40006, Box::new(p.function_item.clone())));
    let mut m = subject;
    for (pi, v) in &p.params {
        m = m.add(M::assertion(M::leaf_item(&Item::Tag(40007, Box::new(pi.clone()))), v.clone()));
    }
    m
}

fn agree_bytes(ctx: &mut Ctx, e: &Envelope, model: &M, what: &str) -> Outcome {
    let lm = tryp!(ctx, bridge::read_out(e), "shape", "C18/shape");
    tryp!(ctx, bridge::agree(&lm, model).map_err(|s| format!("{} envelope does not have the documented shape: {} (got {} expected {})", what, s, lm.show(), model.show())), "shape", &format!("C18/shape/{}", what));
    Outcome::Pass
}

macro_rules! pass {
    ($e:expr) => {
        match $e {
            Outcome::Pass => {}
            other => return other,
        }
    };
}

pub fn run(data: &[u8], ctx: &mut Ctx) -> Outcome {
    let mut src = Src::new(data);
    let kind = src.below(10);
    let kind_name = ["expression", "request", "request", "response-success", "response-result", "response-failure", "response-early-failure", "event-string", "event-envelope", "event-expression"][kind];
    ctx.class(&format!("kind:{}", kind_name));
    let (function, function_item) = gen_function(&mut src);
    let n_params = src.weighted(&[20, 30, 20, 15, 10, 5]);
    let mut expr = Expression::new(function.clone());
    let mut parts = Parts { function_item: function_item.clone(), params: Vec::new() };
    let mut nonleaf_value = false;
    let mut prev: Option<(Parameter, Item, Envelope, M)> = None;
    for _ in 0..n_params {
        let (param, pi, val, vm) = if prev.is_some() && src.chance(50) {
            // repeated parameter (maybe the very same pair)
            let (p, pi, v, vm) = prev.clone().unwrap();
            if src.bool() {
                (p, pi, v, vm)
            } else {
                let v2 = Envelope::new(src.below(100) as u64 + 1000);
                let vm2 = bridge::read_out(&v2).unwrap();
                (p, pi, v2, vm2)
            }
        } else {
            let (p, pi) = gen_parameter(&mut src);
            let mut cfg = GenCfg::new(3, 10);
            let spec = gen::gen_spec(&mut src, &mut cfg);
            let v = nopanic!(ctx, build_a(&spec, &mut src), "build", "C18/build");
            let vm = tryp!(ctx, bridge::read_out(&v), "readout", "C18/readout");
            let _ = spec_model(&spec);
            (p, pi, v, vm)
        };
        if !matches!(vm, M::Leaf(_)) {
            nonleaf_value = true;
        }
        expr = nopanic!(ctx, expr.with_parameter(param.clone(), val.clone()), "build", "C18/build");
        parts.params.push((pi.clone(), vm.clone()));
        prev = Some((param, pi, val, vm));
    }
    if src.bool() {
        expr = expr.with_optional_parameter("absent-optional", None::<&str>);
    }
    let expr_model = expression_model(&parts);
    let (id, id_item) = gen_arid(&mut src);
    let note = src.pick(&["", "", "a note", "ñöté ✓", " "]).to_string();
    let date = gen_date(&mut src, ctx);
    let malform = src.chance(90);

    // ---------------------------------------------------------------- Expression
    let expr_env: Envelope = expr.clone().into();
    ctx.fingerprint(&expr_env.to_cbor_data());
    pass!(agree_bytes(ctx, &expr_env, &expr_model, "expression"));
    if kind == 0 {
        ctx.sample_with(|| format!("Expression {}", expr_model.show()));
        let back = nopanic!(ctx, Expression::try_from(expr_env.clone()), "roundtrip", "C18/expression");
        let back = tryp!(ctx, back.map_err(|x| format!("Expression::try_from failed: {}", x)), "roundtrip", "C18/expression/parse");
        check!(ctx, back == expr && back.function() == &function && back.expression_envelope().is_identical_to(&expr_env), "roundtrip", "C18/expression/equal", "parsed expression differs from the original {}", expr_model.show());
        let dec = tryp!(ctx, Envelope::try_from_cbor_data(expr_env.to_cbor_data()).map_err(|x| x.to_string()), "roundtrip", "C18/expression/parse");
        let back2 = tryp!(ctx, Expression::try_from(dec).map_err(|x| x.to_string()), "roundtrip", "C18/expression/parse");
        check!(ctx, back2 == expr, "roundtrip", "C18/expression/equal", "expression differs after serialisation");
        // expected function
        let ok = nopanic!(ctx, Expression::try_from((expr_env.clone(), Some(&function))), "roundtrip", "C18/expression");
        check!(ctx, ok.is_ok(), "roundtrip", "C18/expression/expected-function", "the actual function was not accepted as the expected one");
        let other = Function::new_named("certainly-another-function");
        let bad = nopanic!(ctx, Expression::try_from((expr_env.clone(), Some(&other))), "malformed", "C18/expression");
        check!(ctx, bad.is_err(), "malformed", "C18/malformed/expected-function", "an expression with another function than the expected one was accepted");
        // parameter lookups agree with the model
        for (pi, _) in &parts.params {
            let p: Parameter = match pi {
                Item::U(v) => Parameter::from(*v),
                Item::T(s) => Parameter::from(s.as_str()),
                _ => unreachable!(),
            };
            let pd = M::leaf_item(&Item::Tag(40007, Box::new(pi.clone()))).digest();
            let want: Vec<_> = expr_model.assertions().iter().filter(|a| matches!(a, M::Assertion(pp, _) if pp.digest() == pd)).collect();
            let got = nopanic!(ctx, back.objects_for_parameter(p.clone()), "lookup", "C18/expression/lookup");
            check!(ctx, got.len() == want.len(), "lookup", "C18/expression/lookup", "objects_for_parameter returned {} values, {} were given", got.len(), want.len());
            let one = nopanic!(ctx, back.object_for_parameter(p), "lookup", "C18/expression/lookup");
            check!(ctx, one.is_ok() == (want.len() == 1), "lookup", "C18/expression/lookup", "object_for_parameter: Ok iff exactly one value");
        }
        if malform {
            let not_fn = Envelope::new("not a function").add_assertion(Parameter::from(1u64), 2);
            let r = nopanic!(ctx, Expression::try_from(not_fn), "malformed", "C18/expression");
            check!(ctx, r.is_err(), "malformed", "C18/malformed/expression-subject", "an envelope whose subject is not a function parsed as an expression");
            ctx.class("malformed");
            ctx.nontrivial = true;
        }
    }

    let date_m = date.as_ref().map(date_model);
    let meta = |m: M, note: &str| -> M {
        let mut m = m;
        if !note.is_empty() {
            m = m.add(M::assertion(M::Known(4), M::text(note)));
        }
        if let Some(d) = &date_m {
            m = m.add(M::assertion(M::Known(16), d.clone()));
        }
        m
    };

    // ---------------------------------------------------------------- Request
    if kind == 1 || kind == 2 {
        let mut req = Request::new_with_body(expr.clone(), id);
        if !note.is_empty() || src.bool() {
            req = req.with_note(note.clone());
        }
        if let Some(d) = &date {
            req = req.with_date(d);
        }
        let env: Envelope = req.clone().into();
        ctx.fingerprint(&env.to_cbor_data());
        let subject = M::leaf_item(&Item::Tag(40004, Box::new(id_item.clone())));
        let model = meta(subject.add(M::assertion(M::Known(100), expr_model.clone())), &note);
        ctx.sample_with(|| format!("Request {}", model.show()));
        pass!(agree_bytes(ctx, &env, &model, "request"));
        let back = nopanic!(ctx, Request::try_from(env.clone()), "roundtrip", "C18/request");
        let back = tryp!(ctx, back.map_err(|x| format!("Request::try_from failed on {}: {}", model.show(), x)), "roundtrip", "C18/request/parse");
        check!(ctx, back == req, "roundtrip", "C18/request/equal", "parsed request differs from the original {}", model.show());
        check!(ctx, back.id() == id && back.note() == note && back.date() == date.as_ref() && back.body() == &expr && back.function() == &function, "roundtrip", "C18/request/fields", "a field of the parsed request differs (note {:?}, date {:?})", back.note(), back.date());
        let dec = tryp!(ctx, Envelope::try_from_cbor_data(env.to_cbor_data()).map_err(|x| x.to_string()), "roundtrip", "C18/request/parse");
        let back2 = tryp!(ctx, Request::try_from(dec).map_err(|x| x.to_string()), "roundtrip", "C18/request/parse");
        check!(ctx, back2 == req, "roundtrip", "C18/request/equal", "request differs after serialisation");
        let okf = nopanic!(ctx, Request::try_from((env.clone(), Some(&function))), "roundtrip", "C18/request");
        check!(ctx, okf.is_ok(), "roundtrip", "C18/request/expected-function", "the actual function was not accepted as the expected one");
        if malform {
            ctx.class("malformed");
            ctx.nontrivial = true;
            let other_f = Function::new_named("certainly-another-function");
            let body_a = env.assertion_with_predicate(known_values::BODY).unwrap();
            let variants: Vec<(&str, Envelope)> = vec![
                ("expected-function", env.clone()),
                ("no-body", env.remove_assertion(body_a.clone())),
                ("two-bodies", env.add_assertion(known_values::BODY, Envelope::from(Expression::new("second")))),
                ("retag-response", env.replace_subject(Envelope::new(CBOR::to_tagged_value(40005u64, id)))),
                ("retag-event", env.replace_subject(Envelope::new(CBOR::to_tagged_value(40026u64, id)))),
                ("untagged-id", env.replace_subject(Envelope::new(id))),
                ("wrong-inner-type", env.replace_subject(Envelope::new(CBOR::to_tagged_value(40004u64, "not an ARID")))),
                ("known-value-subject", env.replace_subject(bridge::known(17))),
                ("non-string-note", env.remove_assertion(Envelope::new_assertion(known_values::NOTE, note.clone())).add_assertion(known_values::NOTE, 42)),
                ("two-notes", env.add_assertion(known_values::NOTE, "first extra").add_assertion(known_values::NOTE, "second extra")),
                ("non-date-date", env.remove_assertion(env.assertion_with_predicate(known_values::DATE).unwrap_or(body_a.clone())).add_assertion(known_values::BODY, Envelope::from(expr.clone())).add_assertion(known_values::DATE, "yesterday")),
                ("body-not-expression", env.remove_assertion(body_a.clone()).add_assertion(known_values::BODY, "just text")),
            ];
            for (name, v) in variants {
                let r = if name == "expected-function" { nopanic!(ctx, Request::try_from((v, Some(&other_f))), "malformed", "C18/request") } else { nopanic!(ctx, Request::try_from(v), "malformed", "C18/request") };
                check!(ctx, r.is_err(), "malformed", &format!("C18/malformed/request-{}", name), "a malformed request ({}) was accepted", name);
            }
        }
    }

    // ---------------------------------------------------------------- Response
    if (3..=6).contains(&kind) {
        let mut cfg = GenCfg::new(2, 6);
        let vs = gen::gen_spec(&mut src, &mut cfg);
        let v = nopanic!(ctx, build_a(&vs, &mut src), "build", "C18/build");
        let vm = tryp!(ctx, bridge::read_out(&v), "readout", "C18/readout");
        let unknown_subject = M::leaf_item(&Item::Tag(40005, Box::new(Item::Tag(40000, Box::new(Item::U(17))))));
        let id_subject = M::leaf_item(&Item::Tag(40005, Box::new(id_item.clone())));
        let (resp, model): (Response, M) = match kind {
            3 => (Response::new_success(id), id_subject.add(M::assertion(M::Known(101), M::Known(103)))),
            4 => {
                let b = src.bool();
                if crate::src::fnv(&vm.tagged()) % 5 == 0 {
                    // the None arm of the optional form: documented as "sets the result to null" (no draw: decided
                    // by the generated value)
                    ctx.class("response:with_optional_result(None)");
                    (Response::new_success(id).with_optional_result(None::<Envelope>), id_subject.add(M::assertion(M::Known(101), M::leaf_item(&Item::Null))))
                } else {
                    let r = if b { Response::new_success(id).with_result(v.clone()) } else { Response::new_success(id).with_optional_result(Some(v.clone())) };
                    (r, id_subject.add(M::assertion(M::Known(101), vm.clone())))
                }
            }
            5 => {
                if src.bool() {
                    (Response::new_failure(id), id_subject.add(M::assertion(M::Known(102), M::Known(17))))
                } else {
                    (Response::new_failure(id).with_error(v.clone()), id_subject.add(M::assertion(M::Known(102), vm.clone())))
                }
            }
            _ => {
                if src.bool() {
                    (Response::new_early_failure(), unknown_subject.add(M::assertion(M::Known(102), M::Known(17))))
                } else {
                    if crate::src::fnv(&vm.tagged()) % 5 == 0 {
                        // the None arm: the error stays what it was ('Unknown')
                        ctx.class("response:with_optional_error(None)");
                        (Response::new_early_failure().with_optional_error(None::<Envelope>), unknown_subject.add(M::assertion(M::Known(102), M::Known(17))))
                    } else {
                        (Response::new_early_failure().with_optional_error(Some(v.clone())), unknown_subject.add(M::assertion(M::Known(102), vm.clone())))
                    }
                }
            }
        };
        if !matches!(vm, M::Leaf(_)) && kind != 3 {
            nonleaf_value = true;
        }
        let env: Envelope = resp.clone().into();
        ctx.fingerprint(&env.to_cbor_data());
        ctx.sample_with(|| format!("Response {}", model.show()));
        pass!(agree_bytes(ctx, &env, &model, "response"));
        let back = nopanic!(ctx, Response::try_from(env.clone()), "roundtrip", "C18/response");
        let back = tryp!(ctx, back.map_err(|x| format!("Response::try_from failed on {}: {}", model.show(), x)), "roundtrip", "C18/response/parse");
        check!(ctx, back == resp, "roundtrip", "C18/response/equal", "parsed response differs from the original {}", model.show());
        check!(ctx, back.is_ok() == resp.is_ok() && back.id() == resp.id() && back.result().is_ok() == resp.is_ok() && back.error().is_ok() == resp.is_err(), "roundtrip", "C18/response/fields", "a field of the parsed response differs");
        let dec = tryp!(ctx, Envelope::try_from_cbor_data(env.to_cbor_data()).map_err(|x| x.to_string()), "roundtrip", "C18/response/parse");
        let back2 = tryp!(ctx, Response::try_from(dec).map_err(|x| x.to_string()), "roundtrip", "C18/response/parse");
        check!(ctx, back2 == resp, "roundtrip", "C18/response/equal", "response differs after serialisation");
        if malform {
            ctx.class("malformed");
            ctx.nontrivial = true;
            let present = if resp.is_ok() { known_values::RESULT } else { known_values::ERROR };
            let absent = if resp.is_ok() { known_values::ERROR } else { known_values::RESULT };
            let the_a = env.assertion_with_predicate(present.clone()).unwrap();
            let variants: Vec<(&str, Envelope)> = vec![
                ("both", env.add_assertion(absent.clone(), "extra")),
                ("neither", env.remove_assertion(the_a.clone())),
                ("duplicate", env.add_assertion(present.clone(), "second value")),
                ("retag-request", env.replace_subject(Envelope::new(CBOR::to_tagged_value(40004u64, id)))),
                ("retag-event", env.replace_subject(Envelope::new(CBOR::to_tagged_value(40026u64, id)))),
                ("untagged-id", env.replace_subject(Envelope::new(id))),
                ("wrong-inner-type", env.replace_subject(Envelope::new(CBOR::to_tagged_value(40005u64, "text")))),
                ("other-known-value", env.replace_subject(Envelope::new(CBOR::to_tagged_value(40005u64, KnownValueCbor(18))))),
                ("not-a-leaf-subject", env.replace_subject(Envelope::new("x").wrap_envelope())),
            ];
            for (name, v) in variants {
                let r = nopanic!(ctx, Response::try_from(v), "malformed", "C18/response");
                check!(ctx, r.is_err(), "malformed", &format!("C18/malformed/response-{}", name), "a malformed response ({}) was accepted", name);
            }
            if resp.is_ok() {
                // success with the 'Unknown' id is not a valid response
                let v = env.replace_subject(Envelope::new(CBOR::to_tagged_value(40005u64, KnownValueCbor(17))));
                let r = nopanic!(ctx, Response::try_from(v), "malformed", "C18/response");
                check!(ctx, r.is_err(), "malformed", "C18/malformed/response-success-unknown-id", "a success response without an ARID was accepted");
            }
        }
    }

    // ---------------------------------------------------------------- Event
    if kind >= 7 {
        let subject = M::leaf_item(&Item::Tag(40026, Box::new(id_item.clone())));
        macro_rules! event_case {
            ($t:ty, $content:expr, $content_model:expr, $what:expr) => {{
                let mut ev = Event::<$t>::new($content, id);
                if !note.is_empty() || src.bool() {
                    ev = ev.with_note(note.clone());
                }
                if let Some(d) = &date {
                    ev = ev.with_date(d);
                }
                let env: Envelope = ev.clone().into();
                ctx.fingerprint(&env.to_cbor_data());
                let model = meta(subject.add(M::assertion(M::Known(108), $content_model)), &note);
                ctx.sample_with(|| format!("Event<{}> {}", $what, model.show()));
                pass!(agree_bytes(ctx, &env, &model, "event"));
                let back = nopanic!(ctx, Event::<$t>::try_from(env.clone()), "roundtrip", "C18/event");
                let back = tryp!(ctx, back.map_err(|x| format!("Event::try_from failed on {}: {}", model.show(), x)), "roundtrip", "C18/event/parse");
                check!(ctx, back == ev, "roundtrip", "C18/event/equal", "parsed event differs from the original {}", model.show());
                check!(ctx, back.id() == id && back.note() == note && back.date() == date.as_ref() && back.content() == ev.content(), "roundtrip", "C18/event/fields", "a field of the parsed event differs");
                let dec = tryp!(ctx, Envelope::try_from_cbor_data(env.to_cbor_data()).map_err(|x| x.to_string()), "roundtrip", "C18/event/parse");
                let back2 = tryp!(ctx, Event::<$t>::try_from(dec).map_err(|x| x.to_string()), "roundtrip", "C18/event/parse");
                check!(ctx, back2 == ev, "roundtrip", "C18/event/equal", "event differs after serialisation");
                if malform {
                    ctx.class("malformed");
                    ctx.nontrivial = true;
                    let content_a = env.assertion_with_predicate(known_values::CONTENT).unwrap();
                    let variants: Vec<(&str, Envelope)> = vec![
                        ("no-content", env.remove_assertion(content_a.clone())),
                        ("two-contents", env.add_assertion(known_values::CONTENT, "a second content")),
                        ("retag-request", env.replace_subject(Envelope::new(CBOR::to_tagged_value(40004u64, id)))),
                        ("retag-response", env.replace_subject(Envelope::new(CBOR::to_tagged_value(40005u64, id)))),
                        ("untagged-id", env.replace_subject(Envelope::new(id))),
                        ("wrong-inner-type", env.replace_subject(Envelope::new(CBOR::to_tagged_value(40026u64, 7)))),
                        ("non-string-note", env.remove_assertion(Envelope::new_assertion(known_values::NOTE, note.clone())).add_assertion(known_values::NOTE, 42)),
                        ("non-date-date", env.remove_assertion(env.assertion_with_predicate(known_values::DATE).unwrap_or(Envelope::new_assertion("none", "none"))).add_assertion(known_values::DATE, false)),
                    ];
                    for (name, v) in variants {
                        let r = nopanic!(ctx, Event::<$t>::try_from(v), "malformed", "C18/event");
                        check!(ctx, r.is_err(), "malformed", &format!("C18/malformed/event-{}", name), "a malformed event ({}) was accepted", name);
                    }
                }
            }};
        }
        match kind {
            7 => {
                let s = src.pick(&["content", "", "ünï", "a longer content string"]).to_string();
                event_case!(String, s.clone(), M::text(&s), "String");
                if malform {
                    // content of the wrong type for Event<String>
                    let ev = Event::<Envelope>::new(Envelope::new(42), id);
                    let r = nopanic!(ctx, Event::<String>::try_from(Envelope::from(ev)), "malformed", "C18/event");
                    check!(ctx, r.is_err(), "malformed", "C18/malformed/event-content-type", "Event<String> accepted a non-string content");
                }
            }
            8 => {
                let mut cfg = GenCfg::new(3, 10);
                let vs = gen::gen_spec(&mut src, &mut cfg);
                let v = nopanic!(ctx, build_a(&vs, &mut src), "build", "C18/build");
                let vm = tryp!(ctx, bridge::read_out(&v), "readout", "C18/readout");
                if !matches!(vm, M::Leaf(_)) {
                    nonleaf_value = true;
                }
                event_case!(Envelope, v.clone(), vm.clone(), "Envelope");
            }
            _ => {
                event_case!(Expression, expr.clone(), expr_model.clone(), "Expression");
            }
        }
    }
    let _ = cbor::encode;
    if nonleaf_value {
        ctx.nontrivial = true;
    }
    Outcome::Pass
}

/// `#6.40000(n)` as a CBOR value (a known value inside a tagged subject).
#[derive(Clone)]
struct KnownValueCbor(u64);
impl From<KnownValueCbor> for CBOR {
    fn from(v: KnownValueCbor) -> CBOR {
        CBOR::to_tagged_value(40000u64, v.0)
    }
}
