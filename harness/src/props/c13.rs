//! C13 — compression round-trips and preserves digests.

use crate::bridge::{self, agree, build_a, check_bytes, check_digests, d32, dig, spec_model};
use crate::cbor::{self, RItem};
use crate::engine::{Ctx, Outcome, Prop};
use crate::gen::{self, GenCfg, LeafSpec, Spec};
use crate::model::M;
use crate::ops::model_compressed;
use crate::src::Src;
use crate::{check, nopanic, tryp};
use bc_components::{Compressed, DigestProvider};
use bc_envelope::prelude::*;

pub fn prop() -> Prop {
    Prop {
        id: "C13",
        run,
        max_len: 700,
        quick: 120_000,
        thorough: 2_000_000,
        rule: "choice sequence -> envelope with every subject case (leaf, known value, wrapped, assertion, node, already compressed, elided, encrypted) carrying a payload of a generated class (highly compressible 200-2000 B text, incompressible random bytes stored raw, empty string, tiny) x {compress, compress_subject} x {uncompress, uncompress_subject}, twice-compress, a compressed element used as the subject of further assertions and then uncompressed; faults: Compressed::from_uncompressed_data(bytes(A), digest(B)) for A != B, and CBOR surgery on a valid compressed element (bit flip in the data / checksum, size field changed, data truncated, digest bit flip), bare and as subject of a node. oracle: the compressed form has the specification digest and the harness-predicted bytes; uncompress(compress(e)) is byte-identical and is_identical_to e; compress twice is byte-identical; uncompress_subject(C + assertions) equals the model node Node(e, assertions) with the digest unchanged; every fault gives Err or an envelope whose harness-recomputed digest equals the declared digest — never another envelope, never a panic. non-trivial: subject is not a plain leaf, or a fault case decoded; distinct by FNV-64 of (encoding, payload class); Compress action on a random inner element: that element must come out COMPRESSED, none with its digest left uncompressed, and uncompress to the original; a fault answered with Ok and the unchanged, still compressed envelope is a failure; one case in 300 compresses more than a megabyte of one repeated byte",
        assumptions: &["a fault is allowed to leave the content intact (e.g. a changed size field): Err is not demanded, only 'never a different envelope'", "miniz deflate/inflate are correct"],
        extra: None,
    }
}

fn payload(src: &mut Src) -> (LeafSpec, &'static str) {
    match src.below(5) {
        0 => {
            let n = 200 + src.below(1800);
            let unit = ["lorem ipsum ", "aaaa", "0123456789", "Alice knows Bob. "][src.below(4)];
            let mut s = String::new();
            while s.len() < n {
                s.push_str(unit);
            }
            (LeafSpec::Str(s), "compressible")
        }
        1 => {
            let n = 64 + src.below(300);
            // pseudo-random bytes expanded from a drawn seed (incompressible)
            let mut x = src.u64() | 1;
            let b: Vec<u8> = (0..n)
                .map(|_| {
                    x ^= x << 13;
                    x ^= x >> 7;
                    x ^= x << 17;
                    (x >> 24) as u8
                })
                .collect();
            (LeafSpec::Bytes(b), "incompressible")
        }
        2 => (LeafSpec::Str(String::new()), "empty-string"),
        3 => (LeafSpec::U8(src.byte()), "tiny"),
        _ => (LeafSpec::Bytes(vec![0u8; 100 + src.below(400)]), "zeros"),
    }
}

pub fn run(data: &[u8], ctx: &mut Ctx) -> Outcome {
    let mut src = Src::new(data);
    let (pl, pclass) = payload(&mut src);
    let mut cfg = GenCfg::new(4, 24);
    let base = gen::gen_spec(&mut src, &mut cfg);
    // put the payload in: as an object of an extra assertion, or as the subject
    let spec = match src.below(3) {
        0 => gen::normalize(Spec::Node(Box::new(Spec::Leaf(pl.clone())), match &base { Spec::Node(_, a) => a.clone(), _ => vec![Spec::Assertion(Box::new(Spec::Known(4)), Box::new(base.clone()))] })),
        1 => {
            let a = Spec::Assertion(Box::new(Spec::Leaf(LeafSpec::Str("payload".into()))), Box::new(Spec::Leaf(pl.clone())));
            match base.clone() {
                Spec::Node(s, mut asr) => {
                    asr.push(a);
                    gen::normalize(Spec::Node(s, asr))
                }
                other => Spec::Node(Box::new(other), vec![a]),
            }
        }
        _ => base.clone(),
    };
    ctx.class(&format!("payload:{}", pclass));
    let model = spec_model(&spec);
    ctx.fingerprint(&model.tagged());
    ctx.fingerprint(pclass.as_bytes());
    ctx.sample_with(|| {
        let s = model.show();
        if s.len() > 300 {
            format!("{}… ({} bytes serialised, payload {})", &s.chars().take(300).collect::<String>(), model.tagged().len(), pclass)
        } else {
            format!("{} (payload {})", s, pclass)
        }
    });
    let e = nopanic!(ctx, build_a(&spec, &mut src), "build", "C13/build");
    let m = tryp!(ctx, bridge::read_out(&e), "readout", "C13/readout");
    ctx.class(&format!("subject:{:?}", m.subject().kind()));
    let orig_bytes = e.to_cbor_data();

    // --- compress (whole)
    let c = nopanic!(ctx, e.compress(), "compress", "C13/compress");
    match &m {
        M::Elided(_) | M::Encrypted(..) => {
            check!(ctx, c.is_err(), "compress", "C13/compress", "compress accepted an elided/encrypted envelope");
        }
        _ => {
            let c = tryp!(ctx, c.map_err(|x| format!("compress failed on {}: {}", m.show(), x)), "compress", "C13/compress");
            let cm = nopanic!(ctx, check_digests(&c), "compress", "C13/compress");
            let cm = tryp!(ctx, cm, "compress", "C13/compress");
            tryp!(ctx, nopanic!(ctx, check_bytes(&c, &cm), "compress", "C13/compress"), "compress", "C13/compress");
            check!(ctx, matches!(cm, M::Compressed(..)), "compress", "C13/compress", "result of compress is not a compressed element");
            check!(ctx, cm.digest() == model.digest() && d32(&c.digest()) == model.digest(), "compress", "C13/compress/digest", "compressed form of {} has a different digest", m.show());
            if !matches!(m, M::Compressed(..)) {
                // predicted blob (deterministic): same bytes as the harness makes with bc-components directly
                let predicted = model_compressed(&m);
                tryp!(ctx, agree(&cm, &predicted).map_err(|s| format!("compressed element differs from the predicted one: {}", s)), "compress", "C13/compress/blob");
            }
            // idempotent
            let c2 = nopanic!(ctx, c.compress(), "compress-twice", "C13/compress-twice");
            let c2 = tryp!(ctx, c2.map_err(|x| x.to_string()), "compress-twice", "C13/compress-twice");
            check!(ctx, c2.to_cbor_data() == c.to_cbor_data(), "compress-twice", "C13/compress-twice", "compressing twice is not idempotent");
            // round trip
            let u = nopanic!(ctx, c.uncompress(), "uncompress", "C13/uncompress");
            let u = tryp!(ctx, u.map_err(|x| format!("uncompress(compress(e)) failed for {}: {}", m.show(), x)), "uncompress", "C13/uncompress");
            if matches!(m, M::Compressed(..)) {
                // e was already compressed: compress is the identity, uncompress opens one level
                check!(ctx, u.digest() == e.digest(), "uncompress", "C13/uncompress/digest", "uncompress changed the digest");
            } else {
                check!(ctx, u.to_cbor_data() == orig_bytes && u.is_identical_to(&e), "uncompress", "C13/uncompress/identical", "uncompress(compress(e)) is not identical to e = {}", m.show());
            }
            // through serialisation
            let c3 = nopanic!(ctx, Envelope::try_from_cbor_data(c.to_cbor_data()), "roundtrip", "C13/roundtrip");
            let c3 = tryp!(ctx, c3.map_err(|x| x.to_string()), "roundtrip", "C13/roundtrip");
            let u3 = nopanic!(ctx, c3.uncompress(), "roundtrip", "C13/roundtrip");
            let u3 = tryp!(ctx, u3.map_err(|x| x.to_string()), "roundtrip", "C13/roundtrip");
            check!(ctx, u3.to_cbor_data() == u.to_cbor_data(), "roundtrip", "C13/roundtrip", "uncompress after encode/decode differs");

            // --- compressed element as the subject of further assertions
            let extra1 = Envelope::new_assertion("C13-note", src.below(100) as u64);
            let extra2 = Envelope::new_assertion(bridge::known(4), "second");
            let mut with = c.add_assertion_envelope(extra1.clone()).unwrap();
            let two = src.bool();
            if two {
                with = with.add_assertion_envelope(extra2.clone()).unwrap();
            }
            let wm = tryp!(ctx, bridge::read_out(&with), "readout", "C13/readout");
            let us = nopanic!(ctx, with.uncompress_subject(), "uncompress_subject", "C13/uncompress_subject");
            let us = tryp!(ctx, us.map_err(|x| format!("uncompress_subject failed: {}", x)), "uncompress_subject", "C13/uncompress_subject");
            let usm = nopanic!(ctx, check_digests(&us), "uncompress_subject", "C13/uncompress_subject");
            let usm = tryp!(ctx, usm, "uncompress_subject", "C13/uncompress_subject");
            check!(ctx, usm.digest() == wm.digest(), "uncompress_subject", "C13/uncompress_subject/digest", "uncompress_subject changed the digest of {} (compressed subject was {})", wm.show(), m.show());
            if !matches!(m, M::Compressed(..)) {
                let mut asr = vec![M::assertion(M::text("C13-note"), bridge::read_out(&extra1.as_object().unwrap()).unwrap())];
                if two {
                    asr.push(M::assertion(M::Known(4), M::text("second")));
                }
                let expect = M::Node(Box::new(m.clone()), asr);
                tryp!(ctx, agree(&usm, &expect).map_err(|s| format!("uncompress_subject of <compressed {}> + assertions: {} (got {})", m.show(), s, usm.show())), "uncompress_subject", "C13/uncompress_subject/structure");
                if matches!(m, M::Node(..)) {
                    ctx.class("node-as-compressed-subject");
                }
                // and back
                let cs = nopanic!(ctx, us.compress_subject(), "compress_subject", "C13/compress_subject");
                let cs = tryp!(ctx, cs.map_err(|x| x.to_string()), "compress_subject", "C13/compress_subject");
                check!(ctx, cs.digest() == with.digest(), "compress_subject", "C13/compress_subject/digest", "compress_subject changed the digest");
            }
        }
    }

    // --- compress_subject / uncompress_subject on the envelope itself
    let cs = nopanic!(ctx, e.compress_subject(), "compress_subject", "C13/compress_subject");
    match m.subject() {
        M::Elided(_) | M::Encrypted(..) => {
            check!(ctx, cs.is_err(), "compress_subject", "C13/compress_subject", "compress_subject accepted an elided/encrypted subject");
        }
        _ => {
            let cs = tryp!(ctx, cs.map_err(|x| format!("compress_subject failed on {}: {}", m.show(), x)), "compress_subject", "C13/compress_subject");
            let csm = nopanic!(ctx, check_digests(&cs), "compress_subject", "C13/compress_subject");
            let csm = tryp!(ctx, csm, "compress_subject", "C13/compress_subject");
            check!(ctx, csm.digest() == model.digest(), "compress_subject", "C13/compress_subject/digest", "compress_subject changed the digest of {}", m.show());
            check!(ctx, matches!(csm.subject(), M::Compressed(..)) && csm.assertions().len() == m.assertions().len(), "compress_subject", "C13/compress_subject", "compress_subject result has the wrong shape: {}", csm.show());
            let cs2 = nopanic!(ctx, cs.compress_subject(), "compress-twice", "C13/compress-twice");
            let cs2 = tryp!(ctx, cs2.map_err(|x| x.to_string()), "compress-twice", "C13/compress-twice");
            check!(ctx, cs2.to_cbor_data() == cs.to_cbor_data(), "compress-twice", "C13/compress-twice", "compress_subject twice is not idempotent");
            if !matches!(m.subject(), M::Compressed(..)) {
                let us = nopanic!(ctx, cs.uncompress_subject(), "uncompress_subject", "C13/uncompress_subject");
                let us = tryp!(ctx, us.map_err(|x| x.to_string()), "uncompress_subject", "C13/uncompress_subject");
                check!(ctx, us.to_cbor_data() == orig_bytes && us.is_identical_to(&e), "uncompress_subject", "C13/uncompress_subject/identical", "uncompress_subject(compress_subject(e)) is not identical to e = {}", m.show());
            }
        }
    }
    // uncompress of something not compressed is refused; uncompress_subject is a no-op
    if !matches!(m, M::Compressed(..)) {
        let r = nopanic!(ctx, e.uncompress(), "not-compressed", "C13/not-compressed");
        check!(ctx, r.is_err(), "not-compressed", "C13/not-compressed", "uncompress succeeded on an envelope that is not compressed");
    }
    if !matches!(m.subject(), M::Compressed(..)) {
        let r = nopanic!(ctx, e.uncompress_subject(), "not-compressed", "C13/not-compressed");
        let r = tryp!(ctx, r.map_err(|x| x.to_string()), "not-compressed", "C13/not-compressed");
        check!(ctx, r.to_cbor_data() == orig_bytes, "not-compressed", "C13/not-compressed", "uncompress_subject changed an envelope whose subject is not compressed");
    }

    // --- Compress action on an inner element: the compressed element, taken out, uncompresses to exactly
    // the element it replaced
    {
        let els = m.elements();
        let pick = els[src.below(els.len())];
        // (skipped when an already obscured element shares the digest: the walk below could not tell the
        // element made by this action from the one that was there before)
        if !pick.is_obscured() && pick.digest() != m.digest() && !els.iter().any(|x| x.is_obscured() && x.digest() == pick.digest()) {
            let pd = pick.digest();
            let t: std::collections::BTreeSet<crate::model::D32> = [pd].into_iter().collect();
            let r = nopanic!(ctx, e.elide_removing_set_with_action(&bridge::to_hashset(&t), &ObscureAction::Compress), "inner", "C13/inner");
            check!(ctx, r.digest() == e.digest(), "inner", "C13/inner/digest", "compressing an inner element changed the root digest");
            let found: std::cell::RefCell<Option<Envelope>> = std::cell::RefCell::new(None);
            let visitor = |env: Envelope, _l: usize, _e: EdgeType, _p: Option<()>| -> Option<()> {
                if env.is_compressed() && d32(&env.digest()) == pd && found.borrow().is_none() {
                    *found.borrow_mut() = Some(env);
                }
                None
            };
            r.walk(false, &visitor);
            let left = std::cell::Cell::new(0usize);
            let visitor2 = |env: Envelope, _l: usize, _e: EdgeType, _p: Option<()>| -> Option<()> {
                if !env.is_compressed() && d32(&env.digest()) == pd {
                    left.set(left.get() + 1);
                }
                None
            };
            r.walk(false, &visitor2);
            check!(ctx, found.borrow().is_some() && left.get() == 0, "inner", "C13/inner/not-compressed", "the Compress action on the inner element {} ({:?}) left {} uncompressed element(s) with its digest and {} compressed one: {}", pick.show(), pick.kind(), left.get(), if found.borrow().is_some() { "a" } else { "no" }, r.format_flat());
            if let Some(c_el) = found.into_inner() {
                let u = nopanic!(ctx, c_el.uncompress(), "inner", "C13/inner");
                let u = tryp!(ctx, u.map_err(|x| format!("an element compressed by the Compress action does not uncompress: {}", x)), "inner", "C13/inner/uncompress");
                let um = tryp!(ctx, bridge::read_out(&u), "readout", "C13/readout");
                let forms: Vec<&M> = els.iter().filter(|x| x.digest() == pd).cloned().collect();
                check!(ctx, forms.iter().any(|f| agree(&um, f).is_ok()), "inner", "C13/inner/identical", "uncompressing an inner element compressed by the action gives {} which is none of the original elements with that digest ({})", um.show(), pick.show());
                ctx.class("inner-element-compressed");
            }
        }
    }

    // --- a very compressible payload (one case in 300, decided by the envelope): more than a megabyte of
    // one repeated byte, as a leaf and as the object of an assertion of this envelope
    if crate::src::fnv(&orig_bytes) % 300 == 0 {
        ctx.class("megabyte-run-payload");
        let big = Envelope::new(dcbor::ByteString::from(vec![(orig_bytes.len() % 256) as u8; 1_100_000 + orig_bytes.len() * 1000 % 900_000]));
        for (form, x) in [("leaf", big.clone()), ("object", e.add_assertion("C13-big", big.clone()))] {
            let c = nopanic!(ctx, x.compress(), "big", "C13/big-run");
            if let Ok(c) = c {
                check!(ctx, c.digest() == x.digest(), "big", "C13/big-run", "compressing a megabyte run ({}) changed the digest", form);
                let u = nopanic!(ctx, c.uncompress(), "big", "C13/big-run");
                let u = tryp!(ctx, u.map_err(|z| format!("the library's own compression of a megabyte run of one byte ({}) does not uncompress: {}", form, z)), "big", "C13/big-run");
                check!(ctx, u.to_cbor_data() == x.to_cbor_data(), "big", "C13/big-run", "uncompress(compress(x)) differs for a megabyte run ({})", form);
                let rt = nopanic!(ctx, Envelope::try_from_cbor_data(c.to_cbor_data()).map_err(|z| z.to_string()).and_then(|y| y.uncompress().map_err(|z| z.to_string())).map(|y| y.digest() == x.digest()), "big", "C13/big-run");
                check!(ctx, rt == Ok(true), "big", "C13/big-run", "a compressed megabyte run does not survive encode / decode / uncompress ({}): {:?}", form, rt);
            }
        }
    }

    // --- faults
    let other = Envelope::new(format!("C13 other {}", src.below(1000)));
    let n_faults = 1 + src.below(3);
    for _ in 0..n_faults {
        let kind = src.below(7);
        let names = ["misdeclared-digest", "data-bit", "checksum-changed", "size-changed", "data-truncated", "digest-bit", "content-not-envelope"];
        let fkey = format!("C13/fault/{}", names[kind]);
        ctx.class(&format!("fault:{}", names[kind]));
        let declared: [u8; 32];
        let raw: Vec<u8> = match kind {
            0 => {
                // content A, declared digest B
                declared = d32(&other.digest());
                if other.digest() == e.digest() {
                    continue;
                }
                Compressed::from_uncompressed_data(e.tagged_cbor().to_cbor_data(), Some(dig(&declared))).tagged_cbor().to_cbor_data()
            }
            6 => {
                declared = d32(&e.digest());
                Compressed::from_uncompressed_data(b"certainly not CBOR of an envelope \xff\xff".to_vec(), Some(dig(&declared))).tagged_cbor().to_cbor_data()
            }
            _ => {
                let good = Compressed::from_uncompressed_data(e.tagged_cbor().to_cbor_data(), Some(e.digest().into_owned())).tagged_cbor().to_cbor_data();
                let p = cbor::parse(&good).expect("compressed element parses");
                let mut r = cbor::to_raw(&good, &p.root);
                let mut dcl = d32(&e.digest());
                {
                    let RItem::Tag(_, _, inner) = &mut r else { unreachable!() };
                    let RItem::A(xs, ..) = &mut **inner else { unreachable!() };
                    match kind {
                        1 => {
                            if let RItem::B(b, _) = &mut xs[2] {
                                if b.is_empty() {
                                    continue;
                                }
                                let i = src.below(b.len());
                                b[i] ^= 1 << src.below(8);
                            }
                        }
                        2 => {
                            if let RItem::U(v, _) = &mut xs[0] {
                                *v = (*v ^ (1 << src.below(32))) & 0xffff_ffff;
                            }
                        }
                        3 => {
                            if let RItem::U(v, _) = &mut xs[1] {
                                let delta = 1 + src.below(5) as u64;
                                *v = if src.bool() { *v + delta } else { v.saturating_sub(delta) };
                            }
                        }
                        4 => {
                            if let RItem::B(b, _) = &mut xs[2] {
                                if b.is_empty() {
                                    continue;
                                }
                                let l = src.below(b.len());
                                b.truncate(l);
                            }
                        }
                        _ => {
                            if let RItem::Tag(_, _, di) = &mut xs[3] {
                                if let RItem::B(b, _) = &mut **di {
                                    let i = src.below(32);
                                    b[i] ^= 1 << src.below(8);
                                    dcl.copy_from_slice(b);
                                }
                            }
                        }
                    }
                }
                declared = dcl;
                cbor::emit(&r)
            }
        };
        // bare, and as the subject of a node
        let bare_m = M::Compressed(declared, raw.clone());
        for (form, mm) in [("bare", bare_m.clone()), ("subject", M::Node(Box::new(bare_m.clone()), vec![M::assertion(M::text("p"), M::text("o"))]))] {
            let te = nopanic!(ctx, Envelope::try_from_cbor_data(mm.tagged()), "fault", &fkey);
            let Ok(te) = te else {
                ctx.class("fault-rejected-at-decode");
                continue;
            };
            ctx.nontrivial = true;
            let r = if form == "bare" { nopanic!(ctx, te.uncompress(), "fault", &fkey) } else { nopanic!(ctx, te.uncompress_subject(), "fault", &fkey) };
            if let Ok(u) = r {
                // an answer of "here is your envelope back, still compressed" is not a rejection
                check!(ctx, u.to_cbor_data() != te.to_cbor_data(), "fault", &format!("{}/silently-unchanged", fkey), "after fault {} ({}) {} returned Ok with the unchanged, still compressed envelope instead of an error", names[kind], form, if form == "bare" { "uncompress" } else { "uncompress_subject" });
                // whatever comes out must hash (by the harness's own recomputation) to the declared digest
                let um = nopanic!(ctx, check_digests(&u), "fault", &fkey);
                let um = tryp!(ctx, um, "fault", &fkey);
                let got = if form == "bare" { um.digest() } else { um.subject().digest() };
                check!(ctx, got == declared, "fault", &fkey, "uncompress returned an envelope whose content does not hash to the declared digest after fault {} ({})", names[kind], form);
                ctx.class("fault-content-intact");
            } else {
                ctx.class("fault-refused");
            }
        }
    }
    if !matches!(m.subject(), M::Leaf(_)) {
        ctx.nontrivial = true;
    }
    Outcome::Pass
}
