//! Choice-sequence reader. A case is a byte string; every structured decision of a generator is
//! drawn from it. When the buffer is exhausted every draw returns 0, which by convention is the
//! simplest alternative, so shrinking the byte vector (deleting bytes, lowering bytes) shrinks the
//! structured case. Index draws are monotone in the drawn value (never `%`).

pub struct Src<'a> {
    data: &'a [u8],
    pos: usize,
}

impl<'a> Src<'a> {
    pub fn new(data: &'a [u8]) -> Self {
        Src { data, pos: 0 }
    }

    pub fn consumed(&self) -> usize {
        self.pos.min(self.data.len())
    }

    pub fn exhausted(&self) -> bool {
        self.pos >= self.data.len()
    }

    pub fn byte(&mut self) -> u8 {
        let b = if self.pos < self.data.len() { self.data[self.pos] } else { 0 };
        self.pos += 1;
        b
    }

    pub fn u16(&mut self) -> u16 {
        ((self.byte() as u16) << 8) | self.byte() as u16
    }

    pub fn u32(&mut self) -> u32 {
        ((self.u16() as u32) << 16) | self.u16() as u32
    }

    pub fn u64(&mut self) -> u64 {
        ((self.u32() as u64) << 32) | self.u32() as u64
    }

    /// Uniform-ish index in 0..n, monotone in the drawn bytes; 0 when exhausted.
    pub fn below(&mut self, n: usize) -> usize {
        if n <= 1 {
            return 0;
        }
        if n <= 256 {
            (self.byte() as usize * n) >> 8
        } else {
            let n = n.min(65536);
            (self.u16() as usize * n) >> 16
        }
    }

    /// Inclusive range.
    pub fn range(&mut self, lo: usize, hi: usize) -> usize {
        debug_assert!(lo <= hi);
        lo + self.below(hi - lo + 1)
    }

    /// true with probability p/256; false when exhausted.
    pub fn chance(&mut self, p: u32) -> bool {
        (self.byte() as u32) + p >= 256
    }

    pub fn bool(&mut self) -> bool {
        self.chance(128)
    }

    /// Weighted pick; alternative 0 is the simplest (chosen on exhaustion).
    pub fn weighted(&mut self, weights: &[u32]) -> usize {
        let total: u32 = weights.iter().sum();
        if total == 0 {
            return 0;
        }
        let v = (self.u16() as u64 * total as u64) >> 16;
        let mut acc = 0u64;
        for (i, w) in weights.iter().enumerate() {
            acc += *w as u64;
            if v < acc {
                return i;
            }
        }
        weights.len() - 1
    }

    pub fn bytes(&mut self, n: usize) -> Vec<u8> {
        (0..n).map(|_| self.byte()).collect()
    }

    pub fn pick<'b, T>(&mut self, xs: &'b [T]) -> &'b T {
        &xs[self.below(xs.len())]
    }
}

/// FNV-1a 64 — used for case fingerprints and replay file names.
pub fn fnv(data: &[u8]) -> u64 {
    let mut h: u64 = 0xcbf29ce484222325;
    for b in data {
        h ^= *b as u64;
        h = h.wrapping_mul(0x100000001b3);
    }
    h
}

pub fn fnv_add(h: u64, data: &[u8]) -> u64 {
    let mut h = h;
    for b in data {
        h ^= *b as u64;
        h = h.wrapping_mul(0x100000001b3);
    }
    h
}
