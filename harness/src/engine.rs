//! Driver: proptest-based parallel search over choice sequences, shrinking, replay files,
//! known-finding handling, evidence.

use crate::src::fnv;
use proptest::collection::vec;
use proptest::prelude::*;
use proptest::test_runner::{Config, RngAlgorithm, TestCaseError, TestError, TestRng, TestRunner};
use std::cell::RefCell;
use std::collections::{BTreeMap, HashSet};
use std::panic::{self, AssertUnwindSafe};
use std::path::{Path, PathBuf};
use std::time::Instant;

// ---------------------------------------------------------------------------------------------
// Panic capture

thread_local! {
    static LAST_PANIC: RefCell<Option<String>> = RefCell::new(None);
    static QUIET: RefCell<bool> = RefCell::new(false);
}

pub fn install_panic_hook() {
    let default = panic::take_hook();
    panic::set_hook(Box::new(move |info| {
        let loc = info.location().map(|l| format!("{}:{}", l.file(), l.line())).unwrap_or_else(|| "?".into());
        let msg = if let Some(s) = info.payload().downcast_ref::<&str>() {
            s.to_string()
        } else if let Some(s) = info.payload().downcast_ref::<String>() {
            s.clone()
        } else {
            "<non-string panic>".to_string()
        };
        LAST_PANIC.with(|p| *p.borrow_mut() = Some(format!("{} @ {}", msg, loc)));
        let quiet = QUIET.with(|q| *q.borrow());
        if !quiet {
            default(info);
        }
    }));
}

/// Information about a caught panic: "message @ file:line".
pub type Panic = String;

/// Run `f`, converting a panic into `Err("message @ file:line")`.
pub fn guard<T>(f: impl FnOnce() -> T) -> Result<T, Panic> {
    QUIET.with(|q| *q.borrow_mut() = true);
    let r = panic::catch_unwind(AssertUnwindSafe(f));
    QUIET.with(|q| *q.borrow_mut() = false);
    match r {
        Ok(v) => Ok(v),
        Err(_) => Err(LAST_PANIC.with(|p| p.borrow_mut().take()).unwrap_or_else(|| "panic".into())),
    }
}

/// Strip line numbers / paths so a key is stable against unrelated edits: keep file name only.
pub fn panic_site(p: &Panic) -> String {
    match p.rsplit_once(" @ ") {
        Some((_, loc)) => {
            let file = loc.rsplit('/').next().unwrap_or(loc);
            file.split(':').next().unwrap_or(file).to_string()
        }
        None => "?".into(),
    }
}

// ---------------------------------------------------------------------------------------------
// Case context and outcome

#[derive(Debug, Clone)]
pub struct Failure {
    pub sub: String,
    pub key: String,
    pub msg: String,
}

pub enum Outcome {
    Pass,
    Reject,
    Fail(Failure),
}

pub struct Ctx<'a> {
    pub classes: BTreeMap<String, u64>,
    pub nontrivial: bool,
    pub fp: u64,
    pub want_sample: bool,
    pub sample: Option<String>,
    pub known_open: &'a HashSet<String>,
    pub known_hits: BTreeMap<String, u64>,
    pub excluded_known: u64,
    /// in replay mode known findings are reported as failures too (with a note)
    pub strict: bool,
    pub tier_thorough: bool,
}

impl<'a> Ctx<'a> {
    pub fn new(known_open: &'a HashSet<String>) -> Self {
        Ctx {
            classes: BTreeMap::new(),
            nontrivial: false,
            fp: 0xcbf29ce484222325,
            want_sample: false,
            sample: None,
            known_open,
            known_hits: BTreeMap::new(),
            excluded_known: 0,
            strict: false,
            tier_thorough: false,
        }
    }
    pub fn class(&mut self, c: &str) {
        *self.classes.entry(c.to_string()).or_insert(0) += 1;
    }
    pub fn count(&mut self, c: &str, n: u64) {
        *self.classes.entry(c.to_string()).or_insert(0) += n;
    }
    pub fn fingerprint(&mut self, data: &[u8]) {
        self.fp = crate::src::fnv_add(self.fp, data);
        self.fp = crate::src::fnv_add(self.fp, &[0xff]);
    }
    pub fn sample_with(&mut self, f: impl FnOnce() -> String) {
        if self.want_sample && self.sample.is_none() {
            self.sample = Some(f());
        }
    }
    pub fn is_open(&self, key: &str) -> bool {
        self.known_open.contains(key)
    }
    /// For failures that should not end the case when they are a listed open finding: records the hit
    /// and returns true (caller continues); returns false when the key is not listed (caller fails).
    pub fn note_known(&mut self, key: &str) -> bool {
        if !self.strict && self.known_open.contains(key) {
            *self.known_hits.entry(key.to_string()).or_insert(0) += 1;
            self.excluded_known += 1;
            true
        } else {
            false
        }
    }
    /// Report a failed expectation. If the key is a listed open finding the search continues.
    pub fn fail(&mut self, sub: &str, key: &str, msg: String) -> Option<Failure> {
        if !self.strict && self.known_open.contains(key) {
            *self.known_hits.entry(key.to_string()).or_insert(0) += 1;
            None
        } else {
            Some(Failure { sub: sub.to_string(), key: key.to_string(), msg })
        }
    }
}

/// `check!(ctx, cond, sub, key, "fmt", args..)` — returns `Outcome::Fail` from the enclosing
/// function when the condition is false and the key is not an open known finding; when it is a
/// known finding the rest of the case is skipped (`Outcome::Pass`).
#[macro_export]
macro_rules! check {
    ($ctx:expr, $cond:expr, $sub:expr, $key:expr, $($arg:tt)*) => {
        if !($cond) {
            match $ctx.fail($sub, $key, format!($($arg)*)) {
                Some(f) => return $crate::engine::Outcome::Fail(f),
                None => return $crate::engine::Outcome::Pass,
            }
        }
    };
}

/// `tryp!(ctx, result, sub, key)` — unwrap a `Result<T, String>` or fail.
#[macro_export]
macro_rules! tryp {
    ($ctx:expr, $res:expr, $sub:expr, $key:expr) => {
        match $res {
            Ok(v) => v,
            Err(e) => match $ctx.fail($sub, $key, format!("{}", e)) {
                Some(f) => return $crate::engine::Outcome::Fail(f),
                None => return $crate::engine::Outcome::Pass,
            },
        }
    };
}

/// `nopanic!(ctx, expr, sub, key_prefix)` — evaluate under `guard`; a panic is a failure whose key
/// is `<key_prefix>/panic@<file>`.
#[macro_export]
macro_rules! nopanic {
    ($ctx:expr, $e:expr, $sub:expr, $key:expr) => {
        match $crate::engine::guard(|| $e) {
            Ok(v) => v,
            Err(p) => {
                let key = format!("{}/panic@{}", $key, $crate::engine::panic_site(&p));
                match $ctx.fail($sub, &key, format!("panic: {}", p)) {
                    Some(f) => return $crate::engine::Outcome::Fail(f),
                    None => return $crate::engine::Outcome::Pass,
                }
            }
        }
    };
}

pub struct Prop {
    pub id: &'static str,
    pub run: fn(&[u8], &mut Ctx) -> Outcome,
    pub max_len: usize,
    pub quick: u64,
    pub thorough: u64,
    pub rule: &'static str,
    pub assumptions: &'static [&'static str],
    /// optional extra stage run once per invocation (e.g. fuzz stage, process-level experiments);
    /// returns extra coverage entries or a failure
    pub extra: Option<fn(&RunCfg, &mut BTreeMap<String, serde_json::Value>) -> Result<(), (Failure, Vec<u8>)>>,
}

pub struct RunCfg {
    pub thorough: bool,
    pub seed: u64,
    pub verif_dir: PathBuf,
    pub workers: usize,
    pub cases_override: Option<u64>,
}

// ---------------------------------------------------------------------------------------------
// Known findings

#[derive(Debug, Clone)]
pub struct Known {
    pub property: String,
    pub key: String,
    pub status: String,
    pub what: String,
}

pub fn load_known(verif_dir: &Path) -> Vec<Known> {
    let p = verif_dir.join("known_findings.json");
    let Ok(s) = std::fs::read_to_string(&p) else { return vec![] };
    let Ok(v) = serde_json::from_str::<serde_json::Value>(&s) else {
        eprintln!("harness: known_findings.json does not parse");
        std::process::exit(2);
    };
    let mut out = vec![];
    if let Some(a) = v.get("findings").and_then(|x| x.as_array()) {
        for f in a {
            out.push(Known {
                property: f["property"].as_str().unwrap_or("").to_string(),
                key: f["key"].as_str().unwrap_or("").to_string(),
                status: f["status"].as_str().unwrap_or("").to_string(),
                what: f["what"].as_str().unwrap_or("").to_string(),
            });
        }
    }
    out
}

// ---------------------------------------------------------------------------------------------
// Search

#[derive(Default)]
struct WorkerStats {
    evaluations: u64,
    rejected: u64,
    nontrivial: u64,
    fps: HashSet<u64>,
    classes: BTreeMap<String, u64>,
    known_hits: BTreeMap<String, u64>,
    excluded_known: u64,
    samples: Vec<String>,
    failure: Option<(Failure, Vec<u8>)>,
}

fn seed_bytes(seed: u64, worker: u64, stream: u64) -> [u8; 32] {
    let mut s = [0u8; 32];
    s[..8].copy_from_slice(&seed.to_le_bytes());
    s[8..16].copy_from_slice(&worker.to_le_bytes());
    s[16..24].copy_from_slice(&stream.to_le_bytes());
    s[24..32].copy_from_slice(&0x5eed_c0de_u64.to_le_bytes());
    s
}

fn run_worker(prop: &Prop, cases: u64, seed: u64, worker: u64, known_open: &HashSet<String>, thorough: bool) -> WorkerStats {
    let stats = RefCell::new(WorkerStats::default());
    let failed = RefCell::new(false);
    let first_key: RefCell<Option<String>> = RefCell::new(None);
    let mut config = Config::default();
    config.cases = cases.min(u32::MAX as u64) as u32;
    config.failure_persistence = None;
    config.max_shrink_iters = if prop.id == "C20" { 60 } else { 30_000 }; // a C20 case costs three processes (20 s each when it hangs)
    config.max_global_rejects = u32::MAX;
    config.max_local_rejects = u32::MAX;
    config.verbose = 0;
    let rng = TestRng::from_seed(RngAlgorithm::ChaCha, &seed_bytes(seed, worker, 0));
    let mut runner = TestRunner::new_with_rng(config, rng);
    let strategy = vec(any::<u8>(), 0..=prop.max_len);
    let sample_points: [u64; 6] = [1, 2, 3, cases / 4 + 3, cases / 2 + 3, cases * 3 / 4 + 3];
    let result = runner.run(&strategy, |data| {
        let counting = !*failed.borrow();
        let mut ctx = Ctx::new(known_open);
        ctx.tier_thorough = thorough;
        if counting && worker == 0 {
            let st = stats.borrow();
            ctx.want_sample = sample_points.contains(&(st.nontrivial + 1)) && st.samples.len() < 6;
        }
        let out = match guard(|| (prop.run)(&data, &mut ctx)) {
            Ok(o) => o,
            Err(p) => Outcome::Fail(Failure {
                sub: "harness".into(),
                key: format!("{}/uncaught-panic@{}", prop.id, panic_site(&p)),
                msg: format!("panic outside any guarded call (library or harness): {}", p),
            }),
        };
        if counting {
            let mut st = stats.borrow_mut();
            st.evaluations += 1;
            for (k, v) in &ctx.classes {
                *st.classes.entry(k.clone()).or_insert(0) += v;
            }
            for (k, v) in &ctx.known_hits {
                *st.known_hits.entry(k.clone()).or_insert(0) += v;
            }
            st.excluded_known += ctx.excluded_known;
            match &out {
                Outcome::Pass => {
                    if ctx.nontrivial && ctx.known_hits.is_empty() {
                        st.nontrivial += 1;
                        st.fps.insert(ctx.fp);
                        if let Some(s) = ctx.sample.take() {
                            st.samples.push(s);
                        }
                    }
                }
                Outcome::Reject => st.rejected += 1,
                Outcome::Fail(_) => {}
            }
        }
        match out {
            Outcome::Fail(f) => {
                // key-preserving shrinking: once a failure has been seen, only the same failure (same
                // finding key) counts as failing, so the shrinker cannot drift to a different defect
                let mut fk = first_key.borrow_mut();
                match &*fk {
                    None => *fk = Some(f.key.clone()),
                    Some(k) if *k != f.key => return Ok(()),
                    _ => {}
                }
                *failed.borrow_mut() = true;
                Err(TestCaseError::fail(format!("{}\u{1}{}\u{1}{}", f.sub, f.key, f.msg)))
            }
            _ => Ok(()),
        }
    });
    let mut st = stats.into_inner();
    if let Err(e) = result {
        match e {
            TestError::Fail(reason, value) => {
                let r = reason.message().to_string();
                let mut parts = r.splitn(3, '\u{1}');
                let f = Failure {
                    sub: parts.next().unwrap_or("").to_string(),
                    key: parts.next().unwrap_or("").to_string(),
                    msg: parts.next().unwrap_or("").to_string(),
                };
                st.failure = Some((f, value));
            }
            TestError::Abort(reason) => {
                eprintln!("harness: proptest aborted: {}", reason.message());
                std::process::exit(2);
            }
        }
    }
    st
}

pub fn write_replay(verif_dir: &Path, id: &str, f: &Failure, data: &[u8], describe: &str) -> PathBuf {
    let dir = verif_dir.join("replays");
    let _ = std::fs::create_dir_all(&dir);
    let name = format!("{}-{}-{:016x}", id, sanitize(&f.sub), fnv(data));
    let bin = dir.join(format!("{}.bin", name));
    let _ = std::fs::write(&bin, data);
    let txt = dir.join(format!("{}.txt", name));
    let _ = std::fs::write(
        &txt,
        format!("property: {}\nsub-check: {}\nfinding key: {}\nmessage: {}\nchoice sequence ({} bytes): {}\n\n{}\n", id, f.sub, f.key, f.msg, data.len(), hex::encode(data), describe),
    );
    bin
}

fn sanitize(s: &str) -> String {
    s.chars().map(|c| if c.is_ascii_alphanumeric() { c } else { '_' }).collect()
}

/// Replay one choice sequence in strict mode. Returns the failure if any.
pub fn replay_case(prop: &Prop, data: &[u8], known_open: &HashSet<String>) -> (Option<Failure>, Option<String>) {
    let mut ctx = Ctx::new(known_open);
    ctx.strict = true;
    ctx.want_sample = true;
    ctx.tier_thorough = true;
    let out = match guard(|| (prop.run)(data, &mut ctx)) {
        Ok(o) => o,
        Err(p) => Outcome::Fail(Failure { sub: "harness".into(), key: format!("{}/uncaught-panic@{}", prop.id, panic_site(&p)), msg: format!("panic outside any guarded call: {}", p) }),
    };
    match out {
        Outcome::Fail(f) => (Some(f), ctx.sample),
        _ => (None, ctx.sample),
    }
}

pub fn run_property(prop: &Prop, cfg: &RunCfg) -> i32 {
    let t0 = Instant::now();
    let known_all = load_known(&cfg.verif_dir);
    let known_open: HashSet<String> = known_all.iter().filter(|k| k.property == prop.id && k.status == "open").map(|k| k.key.clone()).collect();

    // 1. regression inputs first (the seconds-long replay tier)
    let mut regress_run = 0u64;
    let mut regress_failure: Option<PathBuf> = None;
    let rdir = cfg.verif_dir.join("regress").join(prop.id);
    if let Ok(rd) = std::fs::read_dir(&rdir) {
        let mut files: Vec<PathBuf> = rd.filter_map(|e| e.ok()).map(|e| e.path()).filter(|p| p.extension().map(|x| x == "bin").unwrap_or(false)).collect();
        files.sort();
        for f in files {
            let data = std::fs::read(&f).unwrap_or_default();
            regress_run += 1;
            let mut ctx = Ctx::new(&known_open);
            let out = match guard(|| (prop.run)(&data, &mut ctx)) {
                Ok(o) => o,
                Err(p) => Outcome::Fail(Failure { sub: "harness".into(), key: format!("{}/uncaught-panic@{}", prop.id, panic_site(&p)), msg: p }),
            };
            if let Outcome::Fail(fl) = out {
                // remembered; the generated search still runs so that the evidence says what was covered
                println!("regression input {} fails: [{}] {}", f.display(), fl.key, fl.msg);
                if regress_failure.is_none() {
                    regress_failure = Some(f.clone());
                }
                continue;
            }
            for (k, _) in ctx.known_hits {
                report_known(prop.id, &k, &known_all);
            }
        }
    }

    // safety net only: budgets are case counts, but a harness or library hang must not block forever.
    // Hitting it is "inconclusive" (exit 2), never a violation.
    {
        let limit = std::time::Duration::from_secs(if cfg.thorough { 6 * 3600 } else { 20 * 60 });
        let id = prop.id;
        std::thread::spawn(move || {
            std::thread::sleep(limit);
            println!("{}: wall-clock watchdog ({} s) hit — inconclusive, not a violation", id, limit.as_secs());
            std::process::exit(2);
        });
    }

    // 2. generated search
    let total = cfg.cases_override.unwrap_or(if cfg.thorough { prop.thorough } else { prop.quick });
    let workers = cfg.workers.max(1) as u64;
    let per = (total + workers - 1) / workers;
    let mut merged = WorkerStats::default();
    let results: Vec<WorkerStats> = std::thread::scope(|s| {
        let hs: Vec<_> = (0..workers)
            .map(|w| {
                let ko = &known_open;
                std::thread::Builder::new()
                    .stack_size(256 << 20)
                    .spawn_scoped(s, move || run_worker(prop, per, cfg.seed, w, ko, cfg.thorough))
                    .expect("spawn worker")
            })
            .collect();
        hs.into_iter().map(|h| h.join().expect("worker thread")).collect()
    });
    for st in results {
        merged.evaluations += st.evaluations;
        merged.rejected += st.rejected;
        merged.nontrivial += st.nontrivial;
        merged.fps.extend(st.fps);
        for (k, v) in st.classes {
            *merged.classes.entry(k).or_insert(0) += v;
        }
        for (k, v) in st.known_hits {
            *merged.known_hits.entry(k).or_insert(0) += v;
        }
        merged.excluded_known += st.excluded_known;
        merged.samples.extend(st.samples);
        // a poisoned global lock makes every later call fail: prefer the failure that is not such an echo
        let is_echo = |f: &Option<(Failure, Vec<u8>)>| f.as_ref().map(|x| x.0.msg.contains("PoisonError")).unwrap_or(true);
        if merged.failure.is_none() || (is_echo(&merged.failure) && !is_echo(&st.failure)) {
            if st.failure.is_some() {
                merged.failure = st.failure;
            }
        }
    }

    // 3. extra stage
    let mut extra_cov: BTreeMap<String, serde_json::Value> = BTreeMap::new();
    if merged.failure.is_none() {
        if let Some(extra) = prop.extra {
            if let Err(fv) = extra(cfg, &mut extra_cov) {
                merged.failure = Some(fv);
            }
        }
    }

    // one line per listed open finding of this property, with the number of times this run met it
    for k in known_all.iter().filter(|k| k.property == prop.id && k.status == "open") {
        let hits = merged.known_hits.get(&k.key).cloned().unwrap_or(0);
        println!("KNOWN-FINDING: property={} {} [{}] ({})", prop.id, k.what, k.key, if hits > 0 { format!("met {} times in this run", hits) } else { "not met in this run".to_string() });
    }

    let violations = if merged.failure.is_some() || regress_failure.is_some() { 1 } else { 0 };
    if merged.samples.is_empty() {
        // a run that fails at once has no sampled case yet: show the failing one
        if let Some((_, data)) = &merged.failure {
            let (_, descr) = replay_case(prop, data, &known_open);
            merged.samples.push(descr.unwrap_or_else(|| format!("choice sequence {}", hex::encode(data))));
        }
    }
    write_evidence(prop, cfg, &merged, regress_run, violations, t0, &extra_cov);
    if let Some(f) = &regress_failure {
        println!("VIOLATION property={} replay={}", prop.id, f.display());
        return 1;
    }

    if let Some((f, data)) = &merged.failure {
        let (_, descr) = replay_case(prop, data, &known_open);
        let path = write_replay(&cfg.verif_dir, prop.id, f, data, &descr.unwrap_or_default());
        println!("{} [{}] {}: {}", prop.id, f.sub, f.key, f.msg);
        println!("VIOLATION property={} replay={}", prop.id, path.display());
        return 1;
    }
    println!(
        "{} {}: {} cases, {} distinct non-trivial, {} rejected, {} known-finding hits, {:.1}s — no violation",
        prop.id,
        if cfg.thorough { "thorough" } else { "quick" },
        merged.evaluations,
        merged.fps.len(),
        merged.rejected,
        merged.known_hits.values().sum::<u64>(),
        t0.elapsed().as_secs_f64()
    );
    0
}

fn report_known(id: &str, key: &str, all: &[Known]) {
    let what = all.iter().find(|k| k.property == id && k.key == key).map(|k| k.what.clone()).unwrap_or_default();
    println!("KNOWN-FINDING: property={} {} [{}]", id, what, key);
}

fn write_evidence(prop: &Prop, cfg: &RunCfg, st: &WorkerStats, regress_run: u64, violations: i64, t0: Instant, extra: &BTreeMap<String, serde_json::Value>) {
    use serde_json::json;
    let dir = cfg.verif_dir.join("evidence");
    let _ = std::fs::create_dir_all(&dir);
    let mut coverage = serde_json::Map::new();
    coverage.insert("evaluations".into(), json!(st.evaluations + regress_run));
    coverage.insert("distinct_nontrivial".into(), json!(st.fps.len()));
    coverage.insert("nontrivial_total".into(), json!(st.nontrivial));
    coverage.insert("rule".into(), json!(prop.rule));
    coverage.insert("samples".into(), json!(st.samples));
    coverage.insert("classes".into(), json!(st.classes));
    coverage.insert("rejected".into(), json!(st.rejected));
    coverage.insert("regression_inputs_replayed".into(), json!(regress_run));
    coverage.insert("known_findings_hit".into(), json!(st.known_hits));
    coverage.insert("excluded_known".into(), json!(st.excluded_known));
    coverage.insert("workers".into(), json!(cfg.workers));
    for (k, v) in extra {
        coverage.insert(k.clone(), v.clone());
    }
    let ev = json!({
        "property_id": prop.id,
        "tier": if cfg.thorough { "thorough" } else { "quick" },
        "seed": cfg.seed,
        "level": "exploration",
        "coverage": coverage,
        "assumptions": prop.assumptions,
        "wall_s": t0.elapsed().as_secs_f64(),
        "violations": violations,
    });
    let path = dir.join(format!("{}.json", prop.id));
    if let Err(e) = std::fs::write(&path, serde_json::to_string_pretty(&ev).unwrap()) {
        eprintln!("harness: cannot write evidence {}: {}", path.display(), e);
        std::process::exit(2);
    }
}
