use envverif::engine::{self, RunCfg};
use envverif::props;
use std::path::PathBuf;

fn usage() -> ! {
    eprintln!("usage: envverif <ID> quick|thorough [--cases N] | envverif <ID> --replay <file> | envverif --list");
    std::process::exit(2);
}

fn main() {
    let args: Vec<String> = std::env::args().skip(1).collect();
    if args.is_empty() {
        usage();
    }
    if args[0] == "--list" {
        for p in props::all() {
            println!("{}", p.id);
        }
        return;
    }
    std::env::set_var("RUST_BACKTRACE", "0");
    std::env::set_var("RUST_LIB_BACKTRACE", "0");
    if args[0] == "--c20-child" {
        // a fresh process per thread program: nothing may touch the registries before this point
        std::panic::set_hook(Box::new(|_| {}));
        let code = props::c20::child_main(args.get(1).map(|s| s.as_str()).unwrap_or(""), args.get(2).map(|s| s.as_str()).unwrap_or(""));
        std::process::exit(code);
    }
    if args[0] == "--emit-corpus" {
        // writes small seed corpora for the libFuzzer targets (committed under /verif/corpus)
        let dir = PathBuf::from(args.get(1).cloned().unwrap_or_else(|| "/verif/corpus".into()));
        let mut x = 0x2545f4914f6cdd1du64;
        let mut next = move || {
            x ^= x << 13;
            x ^= x >> 7;
            x ^= x << 17;
            x
        };
        for target in ["history", "elide", "ops"] {
            let d = dir.join(target);
            let _ = std::fs::create_dir_all(&d);
            for i in 0..24 {
                let n = 150 + (next() % 450) as usize;
                let bytes: Vec<u8> = (0..n).map(|_| (next() >> 24) as u8).collect();
                let _ = std::fs::write(d.join(format!("seed{:02}.bin", i)), bytes);
            }
        }
        let d = dir.join("decode");
        let _ = std::fs::create_dir_all(&d);
        for i in 0..48 {
            let n = 100 + (next() % 400) as usize;
            let bytes: Vec<u8> = (0..n).map(|_| (next() >> 24) as u8).collect();
            let mut src = envverif::src::Src::new(&bytes);
            let mut cfg = envverif::gen::GenCfg::new(4, 30);
            let spec = envverif::gen::gen_spec(&mut src, &mut cfg);
            let enc = envverif::bridge::spec_model(&spec).tagged();
            let _ = std::fs::write(d.join(format!("valid{:02}.bin", i)), enc);
        }
        // vectors of the repository's core_tests: legacy #6.24 leaf, unknown-tag leaf
        let _ = std::fs::write(d.join("legacy-leaf.bin"), [0xd8, 0xc8, 0xd8, 0x18, 0x18, 0x2a]);
        let _ = std::fs::write(d.join("unknown-tag-leaf.bin"), [0xd8, 0xc8, 0xd8, 0xc9, 0xd9, 0x03, 0xe7, 0x63, 0x66, 0x6f, 0x6f]);
        println!("corpora written under {}", dir.display());
        return;
    }
    if args[0] == "--c20-part-b" {
        let cases = args.get(1).and_then(|s| s.parse().ok()).unwrap_or(100);
        let seed = args.get(2).and_then(|s| s.parse().ok()).unwrap_or(1);
        std::process::exit(props::c20::part_b_main(cases, seed));
    }
    engine::install_panic_hook();
    bc_envelope::register_tags();
    let id = args[0].clone();
    let Some(prop) = props::find(&id) else {
        eprintln!("unknown property {}", id);
        std::process::exit(2);
    };
    let verif_dir = PathBuf::from(std::env::var("VERIF_DIR").unwrap_or_else(|_| "/verif".into()));
    if let Err(e) = envverif::selfcheck::run() {
        eprintln!("harness self-check failed (inconclusive, not a violation): {}", e);
        std::process::exit(2);
    }
    if args.len() >= 3 && args[1] == "--replay" {
        let data = match std::fs::read(&args[2]) {
            Ok(d) => d,
            Err(e) => {
                eprintln!("cannot read {}: {}", args[2], e);
                std::process::exit(2);
            }
        };
        let known = engine::load_known(&verif_dir);
        let open = known.iter().filter(|k| k.property == id && k.status == "open").map(|k| k.key.clone()).collect();
        // artifacts of the libFuzzer `decode` target are raw decoder inputs, not choice sequences
        let raw_decoder_input = id == "C06" && args[2].contains("-fuzz-");
        let (f, descr) = if raw_decoder_input {
            let mut ctx = engine::Ctx::new(&open);
            ctx.strict = true;
            let out = engine::guard(|| props::c06::judge_decode(&data, &mut ctx));
            let f = match out {
                Ok(engine::Outcome::Fail(f)) => Some(f),
                Ok(_) => None,
                Err(p) => Some(engine::Failure { sub: "harness".into(), key: "C06/uncaught-panic".into(), msg: p }),
            };
            (f, Some(format!("raw decoder input {}", envverif::cbor::diag_bytes(&data))))
        } else {
            engine::replay_case(&prop, &data, &open)
        };
        if let Some(d) = descr {
            println!("case: {}", d);
        }
        match f {
            Some(f) => {
                let note = if open.contains(&f.key) { " (listed open known finding)" } else { "" };
                println!("{} [{}] {}{}: {}", id, f.sub, f.key, note, f.msg);
                println!("VIOLATION property={} replay={}", id, args[2]);
                std::process::exit(1);
            }
            None => {
                println!("{} replay {}: property holds on this input", id, args[2]);
                return;
            }
        }
    }
    let tier = args.get(1).cloned().or_else(|| std::env::var("VERIF_TIER").ok()).unwrap_or_else(|| "quick".into());
    let thorough = match tier.as_str() {
        "quick" => false,
        "thorough" => true,
        _ => usage(),
    };
    let seed = std::env::var("VERIF_SEED").ok().and_then(|s| s.parse::<u64>().ok()).unwrap_or(1);
    let mut cases_override = None;
    if let Some(i) = args.iter().position(|a| a == "--cases") {
        cases_override = args.get(i + 1).and_then(|s| s.parse().ok());
    }
    let workers = std::env::var("VERIF_WORKERS").ok().and_then(|s| s.parse().ok()).unwrap_or(16);
    let cfg = RunCfg { thorough, seed, verif_dir, workers, cases_override };
    let code = engine::run_property(&prop, &cfg);
    std::process::exit(code);
}
