//! The harness's own dCBOR codec. Shares no code with the `dcbor` crate.
//!
//! * `Item` + `encode`: deterministic encoding (shortest heads, numeric reduction, shortest float,
//!   canonical NaN, map keys sorted bytewise by their encoding, definite lengths).
//! * `parse`: parser for well-formed definite-length CBOR that also reports every deviation from
//!   deterministic encoding (`Parsed::noncanonical`).

use std::collections::HashMap;
use std::sync::OnceLock;

#[derive(Clone, Debug, PartialEq)]
pub enum Item {
    U(u64),
    /// CBOR major type 1: the value is -1 - n
    N(u64),
    B(Vec<u8>),
    T(String),
    A(Vec<Item>),
    /// entries in any order; sorted on encode
    M(Vec<(Item, Item)>),
    Tag(u64, Box<Item>),
    False,
    True,
    Null,
    /// any f64; reduced / shortened on encode
    F(f64),
    /// other simple value (never produced by generators; may come out of the parser)
    Simple(u8),
}

pub fn head(major: u8, v: u64, out: &mut Vec<u8>) {
    let m = major << 5;
    if v < 24 {
        out.push(m | v as u8);
    } else if v <= 0xff {
        out.push(m | 24);
        out.push(v as u8);
    } else if v <= 0xffff {
        out.push(m | 25);
        out.extend_from_slice(&(v as u16).to_be_bytes());
    } else if v <= 0xffff_ffff {
        out.push(m | 26);
        out.extend_from_slice(&(v as u32).to_be_bytes());
    } else {
        out.push(m | 27);
        out.extend_from_slice(&v.to_be_bytes());
    }
}

pub fn f16_to_f64(h: u16) -> f64 {
    let sign = if h & 0x8000 != 0 { -1.0 } else { 1.0 };
    let exp = ((h >> 10) & 0x1f) as i32;
    let man = (h & 0x3ff) as f64;
    let v = if exp == 0 {
        man * 2f64.powi(-24)
    } else if exp == 31 {
        if man == 0.0 {
            f64::INFINITY
        } else {
            f64::NAN
        }
    } else {
        (1.0 + man / 1024.0) * 2f64.powi(exp - 15)
    };
    sign * v
}

/// Table of every finite/infinite f16 value keyed by the bits of the equal f64.
fn f16_table() -> &'static HashMap<u64, u16> {
    static T: OnceLock<HashMap<u64, u16>> = OnceLock::new();
    T.get_or_init(|| {
        let mut m = HashMap::new();
        for h in 0..=0xffffu16 {
            let v = f16_to_f64(h);
            if !v.is_nan() {
                m.insert(v.to_bits(), h);
            }
        }
        m
    })
}

/// What a float becomes under dCBOR numeric reduction.
pub enum Reduced {
    U(u64),
    N(u64),
    F(f64),
    NaN,
}

pub fn reduce(v: f64) -> Reduced {
    if v.is_nan() {
        return Reduced::NaN;
    }
    if v.is_finite() && v.fract() == 0.0 {
        // 2^64 as f64
        let two64 = 18446744073709551616.0f64;
        if v >= 0.0 && v < two64 {
            return Reduced::U(v as u64); // exact: v integral and in range (incl. -0.0 -> 0)
        }
        if v < 0.0 && v >= -two64 {
            // -1 - n = v  =>  n = -1 - v = (-v) - 1
            let a = -v; // in (0, 2^64]
            let n = if a >= two64 { u64::MAX } else { (a as u64) - 1 };
            return Reduced::N(n);
        }
    }
    Reduced::F(v)
}

fn encode_float(v: f64, out: &mut Vec<u8>) {
    match reduce(v) {
        Reduced::NaN => out.extend_from_slice(&[0xf9, 0x7e, 0x00]),
        Reduced::U(n) => head(0, n, out),
        Reduced::N(n) => head(1, n, out),
        Reduced::F(v) => {
            if let Some(h) = f16_table().get(&v.to_bits()) {
                out.push(0xf9);
                out.extend_from_slice(&h.to_be_bytes());
            } else if (v as f32) as f64 == v {
                out.push(0xfa);
                out.extend_from_slice(&(v as f32).to_bits().to_be_bytes());
            } else {
                out.push(0xfb);
                out.extend_from_slice(&v.to_bits().to_be_bytes());
            }
        }
    }
}

pub fn encode_into(item: &Item, out: &mut Vec<u8>) {
    match item {
        Item::U(n) => head(0, *n, out),
        Item::N(n) => head(1, *n, out),
        Item::B(b) => {
            head(2, b.len() as u64, out);
            out.extend_from_slice(b);
        }
        Item::T(s) => {
            head(3, s.len() as u64, out);
            out.extend_from_slice(s.as_bytes());
        }
        Item::A(xs) => {
            head(4, xs.len() as u64, out);
            for x in xs {
                encode_into(x, out);
            }
        }
        Item::M(es) => {
            let mut enc: Vec<(Vec<u8>, Vec<u8>)> = es.iter().map(|(k, v)| (encode(k), encode(v))).collect();
            enc.sort_by(|a, b| a.0.cmp(&b.0));
            enc.dedup_by(|a, b| a.0 == b.0);
            head(5, enc.len() as u64, out);
            for (k, v) in enc {
                out.extend_from_slice(&k);
                out.extend_from_slice(&v);
            }
        }
        Item::Tag(t, inner) => {
            head(6, *t, out);
            encode_into(inner, out);
        }
        Item::False => out.push(0xf4),
        Item::True => out.push(0xf5),
        Item::Null => out.push(0xf6),
        Item::F(v) => encode_float(*v, out),
        Item::Simple(v) => head(7, *v as u64, out),
    }
}

pub fn encode(item: &Item) -> Vec<u8> {
    let mut out = Vec::new();
    encode_into(item, &mut out);
    out
}

pub fn tagged(tag: u64, inner: &[u8]) -> Vec<u8> {
    let mut out = Vec::new();
    head(6, tag, &mut out);
    out.extend_from_slice(inner);
    out
}

pub fn bstr(b: &[u8]) -> Vec<u8> {
    let mut out = Vec::new();
    head(2, b.len() as u64, &mut out);
    out.extend_from_slice(b);
    out
}

// ---------------------------------------------------------------------------------------------
// Parser

/// A parsed item with the byte span it occupied.
#[derive(Clone, Debug)]
pub struct Node {
    pub start: usize,
    pub end: usize,
    pub kind: Kind,
}

#[derive(Clone, Debug)]
pub enum Kind {
    U(u64),
    N(u64),
    B(usize, usize), // payload span
    T(usize, usize), // payload span (valid UTF-8 checked)
    A(Vec<Node>),
    M(Vec<(Node, Node)>),
    Tag(u64, Box<Node>),
    False,
    True,
    Null,
    F(f64),
    Simple(u8),
}

#[derive(Debug, Clone, PartialEq)]
pub enum ParseError {
    Truncated,
    Indefinite,
    Reserved,
    Utf8,
    Trailing,
    TooDeep,
}

pub struct Parsed {
    pub root: Node,
    /// reasons why the input is not deterministic CBOR (empty ⇒ it is dCBOR as far as this parser knows)
    pub noncanonical: Vec<&'static str>,
    pub max_depth: usize,
}

struct P<'a> {
    d: &'a [u8],
    nc: Vec<&'static str>,
    max_depth: usize,
}

pub const DEPTH_LIMIT: usize = 2000;

impl<'a> P<'a> {
    fn arg(&mut self, pos: usize, ai: u8) -> Result<(u64, usize), ParseError> {
        let d = self.d;
        let need = |n: usize| if pos + 1 + n <= d.len() { Ok(()) } else { Err(ParseError::Truncated) };
        match ai {
            0..=23 => Ok((ai as u64, pos + 1)),
            24 => {
                need(1)?;
                let v = d[pos + 1] as u64;
                if v < 24 {
                    self.nc.push("non-shortest head");
                }
                Ok((v, pos + 2))
            }
            25 => {
                need(2)?;
                let v = u16::from_be_bytes([d[pos + 1], d[pos + 2]]) as u64;
                if v <= 0xff {
                    self.nc.push("non-shortest head");
                }
                Ok((v, pos + 3))
            }
            26 => {
                need(4)?;
                let v = u32::from_be_bytes(d[pos + 1..pos + 5].try_into().unwrap()) as u64;
                if v <= 0xffff {
                    self.nc.push("non-shortest head");
                }
                Ok((v, pos + 5))
            }
            27 => {
                need(8)?;
                let v = u64::from_be_bytes(d[pos + 1..pos + 9].try_into().unwrap());
                if v <= 0xffff_ffff {
                    self.nc.push("non-shortest head");
                }
                Ok((v, pos + 9))
            }
            28..=30 => Err(ParseError::Reserved),
            _ => Err(ParseError::Indefinite),
        }
    }

    fn item(&mut self, pos: usize, depth: usize) -> Result<Node, ParseError> {
        if depth > DEPTH_LIMIT {
            return Err(ParseError::TooDeep);
        }
        if depth > self.max_depth {
            self.max_depth = depth;
        }
        if pos >= self.d.len() {
            return Err(ParseError::Truncated);
        }
        let ib = self.d[pos];
        let major = ib >> 5;
        let ai = ib & 0x1f;
        if major == 7 {
            return self.simple(pos, ai);
        }
        let (v, p) = self.arg(pos, ai)?;
        match major {
            0 => Ok(Node { start: pos, end: p, kind: Kind::U(v) }),
            1 => Ok(Node { start: pos, end: p, kind: Kind::N(v) }),
            2 | 3 => {
                let len = v as usize;
                if v > self.d.len() as u64 || p + len > self.d.len() {
                    return Err(ParseError::Truncated);
                }
                if major == 3 {
                    match std::str::from_utf8(&self.d[p..p + len]) {
                        Ok(s) => {
                            use unicode_normalization::UnicodeNormalization;
                            if !unicode_normalization::is_nfc(s) && s.nfc().collect::<String>() != s {
                                self.nc.push("text not NFC");
                            }
                        }
                        Err(_) => return Err(ParseError::Utf8),
                    }
                    Ok(Node { start: pos, end: p + len, kind: Kind::T(p, p + len) })
                } else {
                    Ok(Node { start: pos, end: p + len, kind: Kind::B(p, p + len) })
                }
            }
            4 => {
                if v > self.d.len() as u64 {
                    return Err(ParseError::Truncated);
                }
                let mut xs = Vec::new();
                let mut q = p;
                for _ in 0..v {
                    let n = self.item(q, depth + 1)?;
                    q = n.end;
                    xs.push(n);
                }
                Ok(Node { start: pos, end: q, kind: Kind::A(xs) })
            }
            5 => {
                if v > self.d.len() as u64 {
                    return Err(ParseError::Truncated);
                }
                let mut es: Vec<(Node, Node)> = Vec::new();
                let mut q = p;
                for _ in 0..v {
                    let k = self.item(q, depth + 1)?;
                    let val = self.item(k.end, depth + 1)?;
                    q = val.end;
                    if let Some((pk, _)) = es.last() {
                        let prev = &self.d[pk.start..pk.end];
                        let cur = &self.d[k.start..k.end];
                        if prev == cur {
                            self.nc.push("duplicate map key");
                        } else if prev > cur {
                            self.nc.push("map keys out of order");
                        }
                    }
                    es.push((k, val));
                }
                Ok(Node { start: pos, end: q, kind: Kind::M(es) })
            }
            6 => {
                let inner = self.item(p, depth + 1)?;
                let end = inner.end;
                Ok(Node { start: pos, end, kind: Kind::Tag(v, Box::new(inner)) })
            }
            _ => unreachable!(),
        }
    }

    fn simple(&mut self, pos: usize, ai: u8) -> Result<Node, ParseError> {
        let d = self.d;
        match ai {
            20 => Ok(Node { start: pos, end: pos + 1, kind: Kind::False }),
            21 => Ok(Node { start: pos, end: pos + 1, kind: Kind::True }),
            22 => Ok(Node { start: pos, end: pos + 1, kind: Kind::Null }),
            0..=19 | 23 => {
                self.nc.push("simple value not allowed in dCBOR");
                Ok(Node { start: pos, end: pos + 1, kind: Kind::Simple(ai) })
            }
            24 => {
                if pos + 2 > d.len() {
                    return Err(ParseError::Truncated);
                }
                self.nc.push("simple value not allowed in dCBOR");
                Ok(Node { start: pos, end: pos + 2, kind: Kind::Simple(d[pos + 1]) })
            }
            25 => {
                if pos + 3 > d.len() {
                    return Err(ParseError::Truncated);
                }
                let h = u16::from_be_bytes([d[pos + 1], d[pos + 2]]);
                let v = f16_to_f64(h);
                if v.is_nan() {
                    if h != 0x7e00 {
                        self.nc.push("non-canonical NaN");
                    }
                } else if !matches!(reduce(v), Reduced::F(_)) {
                    self.nc.push("float reducible to integer");
                }
                Ok(Node { start: pos, end: pos + 3, kind: Kind::F(v) })
            }
            26 => {
                if pos + 5 > d.len() {
                    return Err(ParseError::Truncated);
                }
                let v = f32::from_bits(u32::from_be_bytes(d[pos + 1..pos + 5].try_into().unwrap())) as f64;
                if v.is_nan() {
                    self.nc.push("non-canonical NaN");
                } else if !matches!(reduce(v), Reduced::F(_)) {
                    self.nc.push("float reducible to integer");
                } else if f16_table().contains_key(&v.to_bits()) {
                    self.nc.push("float not shortest");
                }
                Ok(Node { start: pos, end: pos + 5, kind: Kind::F(v) })
            }
            27 => {
                if pos + 9 > d.len() {
                    return Err(ParseError::Truncated);
                }
                let v = f64::from_bits(u64::from_be_bytes(d[pos + 1..pos + 9].try_into().unwrap()));
                if v.is_nan() {
                    self.nc.push("non-canonical NaN");
                } else if !matches!(reduce(v), Reduced::F(_)) {
                    self.nc.push("float reducible to integer");
                } else if (v as f32) as f64 == v {
                    self.nc.push("float not shortest");
                }
                Ok(Node { start: pos, end: pos + 9, kind: Kind::F(v) })
            }
            28..=30 => Err(ParseError::Reserved),
            _ => Err(ParseError::Indefinite), // break outside indefinite
        }
    }
}

pub fn parse(d: &[u8]) -> Result<Parsed, ParseError> {
    let mut p = P { d, nc: Vec::new(), max_depth: 0 };
    let root = p.item(0, 0)?;
    if root.end != d.len() {
        return Err(ParseError::Trailing);
    }
    Ok(Parsed { root, noncanonical: p.nc, max_depth: p.max_depth })
}

/// Convert a parsed node back to an `Item` (for re-encoding / diagnostics).
pub fn to_item(d: &[u8], n: &Node) -> Item {
    match &n.kind {
        Kind::U(v) => Item::U(*v),
        Kind::N(v) => Item::N(*v),
        Kind::B(a, b) => Item::B(d[*a..*b].to_vec()),
        Kind::T(a, b) => Item::T(String::from_utf8_lossy(&d[*a..*b]).into_owned()),
        Kind::A(xs) => Item::A(xs.iter().map(|x| to_item(d, x)).collect()),
        Kind::M(es) => Item::M(es.iter().map(|(k, v)| (to_item(d, k), to_item(d, v))).collect()),
        Kind::Tag(t, i) => Item::Tag(*t, Box::new(to_item(d, i))),
        Kind::False => Item::False,
        Kind::True => Item::True,
        Kind::Null => Item::Null,
        Kind::F(v) => Item::F(*v),
        Kind::Simple(v) => Item::Simple(*v),
    }
}

/// CBOR diagnostic notation (compact) for evidence samples / replay descriptions.
pub fn diag(item: &Item) -> String {
    match item {
        Item::U(n) => format!("{}", n),
        Item::N(n) => format!("-{}", *n as u128 + 1),
        Item::B(b) => format!("h'{}'", hex::encode(b)),
        Item::T(s) => format!("{:?}", s),
        Item::A(xs) => format!("[{}]", xs.iter().map(diag).collect::<Vec<_>>().join(", ")),
        Item::M(es) => format!(
            "{{{}}}",
            es.iter().map(|(k, v)| format!("{}: {}", diag(k), diag(v))).collect::<Vec<_>>().join(", ")
        ),
        Item::Tag(t, i) => format!("{}({})", t, diag(i)),
        Item::False => "false".into(),
        Item::True => "true".into(),
        Item::Null => "null".into(),
        Item::F(v) => format!("{:?}", v),
        Item::Simple(v) => format!("simple({})", v),
    }
}

pub fn diag_bytes(d: &[u8]) -> String {
    match parse(d) {
        Ok(p) => diag(&to_item(d, &p.root)),
        Err(e) => format!("<not CBOR: {:?}> h'{}'", e, hex::encode(d)),
    }
}

// ---------------------------------------------------------------------------------------------
// Raw items: a CBOR tree that remembers *how* it is encoded, so that structural mutants
// (including non-deterministic encodings) can be emitted.

#[derive(Clone, Debug, PartialEq)]
pub enum RItem {
    /// major type 0/1/…: value + extra head width (0 = shortest, 1.. = next wider encodings)
    U(u64, u8),
    N(u64, u8),
    B(Vec<u8>, u8),
    T(Vec<u8>, u8),
    /// elements, head widening, indefinite-length
    A(Vec<RItem>, u8, bool),
    /// entries in emission order, head widening, indefinite-length
    M(Vec<(RItem, RItem)>, u8, bool),
    Tag(u64, u8, Box<RItem>),
    /// raw simple/float bytes (initial byte + payload)
    Raw(Vec<u8>),
}

fn head_w(major: u8, v: u64, widen: u8, out: &mut Vec<u8>) {
    // minimal width class: 0 (<24), 1 (u8), 2 (u16), 3 (u32), 4 (u64)
    let min = if v < 24 {
        0
    } else if v <= 0xff {
        1
    } else if v <= 0xffff {
        2
    } else if v <= 0xffff_ffff {
        3
    } else {
        4
    };
    let w = (min + widen).min(4);
    let m = major << 5;
    match w {
        0 => out.push(m | v as u8),
        1 => {
            out.push(m | 24);
            out.push(v as u8);
        }
        2 => {
            out.push(m | 25);
            out.extend_from_slice(&(v as u16).to_be_bytes());
        }
        3 => {
            out.push(m | 26);
            out.extend_from_slice(&(v as u32).to_be_bytes());
        }
        _ => {
            out.push(m | 27);
            out.extend_from_slice(&v.to_be_bytes());
        }
    }
}

pub fn emit_into(r: &RItem, out: &mut Vec<u8>) {
    match r {
        RItem::U(v, w) => head_w(0, *v, *w, out),
        RItem::N(v, w) => head_w(1, *v, *w, out),
        RItem::B(b, w) => {
            head_w(2, b.len() as u64, *w, out);
            out.extend_from_slice(b);
        }
        RItem::T(b, w) => {
            head_w(3, b.len() as u64, *w, out);
            out.extend_from_slice(b);
        }
        RItem::A(xs, w, indef) => {
            if *indef {
                out.push(0x9f);
                for x in xs {
                    emit_into(x, out);
                }
                out.push(0xff);
            } else {
                head_w(4, xs.len() as u64, *w, out);
                for x in xs {
                    emit_into(x, out);
                }
            }
        }
        RItem::M(es, w, indef) => {
            if *indef {
                out.push(0xbf);
            } else {
                head_w(5, es.len() as u64, *w, out);
            }
            for (k, v) in es {
                emit_into(k, out);
                emit_into(v, out);
            }
            if *indef {
                out.push(0xff);
            }
        }
        RItem::Tag(t, w, i) => {
            head_w(6, *t, *w, out);
            emit_into(i, out);
        }
        RItem::Raw(b) => out.extend_from_slice(b),
    }
}

pub fn emit(r: &RItem) -> Vec<u8> {
    let mut out = Vec::new();
    emit_into(r, &mut out);
    out
}

/// Build the raw tree of a parsed (canonical) encoding.
pub fn to_raw(d: &[u8], n: &Node) -> RItem {
    match &n.kind {
        Kind::U(v) => RItem::U(*v, 0),
        Kind::N(v) => RItem::N(*v, 0),
        Kind::B(a, b) => RItem::B(d[*a..*b].to_vec(), 0),
        Kind::T(a, b) => RItem::T(d[*a..*b].to_vec(), 0),
        Kind::A(xs) => RItem::A(xs.iter().map(|x| to_raw(d, x)).collect(), 0, false),
        Kind::M(es) => RItem::M(es.iter().map(|(k, v)| (to_raw(d, k), to_raw(d, v))).collect(), 0, false),
        Kind::Tag(t, i) => RItem::Tag(*t, 0, Box::new(to_raw(d, i))),
        Kind::False | Kind::True | Kind::Null | Kind::F(_) | Kind::Simple(_) => RItem::Raw(d[n.start..n.end].to_vec()),
    }
}

impl RItem {
    pub fn count(&self) -> usize {
        1 + match self {
            RItem::A(xs, ..) => xs.iter().map(|x| x.count()).sum(),
            RItem::M(es, ..) => es.iter().map(|(k, v)| k.count() + v.count()).sum(),
            RItem::Tag(_, _, i) => i.count(),
            _ => 0,
        }
    }

    /// Mutable access to the `idx`-th node in pre-order.
    pub fn nth_mut(&mut self, idx: &mut usize) -> Option<&mut RItem> {
        if *idx == 0 {
            return Some(self);
        }
        *idx -= 1;
        match self {
            RItem::A(xs, ..) => {
                for x in xs.iter_mut() {
                    if let Some(r) = x.nth_mut(idx) {
                        return Some(r);
                    }
                }
                None
            }
            RItem::M(es, ..) => {
                for (k, v) in es.iter_mut() {
                    if let Some(r) = k.nth_mut(idx) {
                        return Some(r);
                    }
                    if let Some(r) = v.nth_mut(idx) {
                        return Some(r);
                    }
                }
                None
            }
            RItem::Tag(_, _, i) => i.nth_mut(idx),
            _ => None,
        }
    }

    pub fn kind_name(&self) -> &'static str {
        match self {
            RItem::U(..) => "uint",
            RItem::N(..) => "negint",
            RItem::B(..) => "bytes",
            RItem::T(..) => "text",
            RItem::A(..) => "array",
            RItem::M(..) => "map",
            RItem::Tag(..) => "tag",
            RItem::Raw(..) => "simple/float",
        }
    }
}
