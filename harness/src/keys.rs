//! Per-thread key pool (keys are generated once per worker thread, deterministically where the
//! scheme allows it).

use bc_components::{EncapsulationPrivateKey, EncapsulationPublicKey, EncapsulationScheme, SignatureScheme, SigningOptions, SigningPrivateKey, SigningPublicKey};
use bc_rand::SeededRandomNumberGenerator;
use std::rc::Rc;

pub struct SigKey {
    pub scheme: &'static str,
    pub private: SigningPrivateKey,
    pub public: SigningPublicKey,
    pub ssh: bool,
}

impl SigKey {
    pub fn options(&self) -> Option<SigningOptions> {
        if self.ssh {
            Some(SigningOptions::Ssh { namespace: "verif".to_string(), hash_alg: ssh_key::HashAlg::Sha256 })
        } else {
            None
        }
    }
}

pub struct EncKey {
    pub scheme: &'static str,
    pub private: EncapsulationPrivateKey,
    pub public: EncapsulationPublicKey,
}

pub struct Pool {
    pub sig: Vec<SigKey>,
    pub enc: Vec<EncKey>,
}

fn rng(n: u64) -> SeededRandomNumberGenerator {
    SeededRandomNumberGenerator::new([0x9e3779b97f4a7c15 ^ n, n.wrapping_mul(0xbf58476d1ce4e5b9) | 1, 0x94d049bb133111eb, n + 7])
}

fn sig(scheme: SignatureScheme, name: &'static str, n: u64, ssh: bool) -> SigKey {
    let mut r = rng(n);
    let (private, public) = match scheme.keypair_using(&mut r, "") {
        Ok(kp) => kp,
        Err(_) => scheme.keypair(), // ML-DSA: not seedable
    };
    SigKey { scheme: name, private, public, ssh }
}

fn enc(scheme: EncapsulationScheme, name: &'static str, n: u64) -> EncKey {
    let mut r = rng(1000 + n);
    let (private, public) = match scheme.keypair_using(&mut r) {
        Ok(kp) => kp,
        Err(_) => scheme.keypair(), // ML-KEM: not seedable
    };
    EncKey { scheme: name, private, public }
}

impl Pool {
    /// `full`: every scheme (2 keys each, 1 SSH-DSA); otherwise the cheap core (Ed25519, Schnorr, ECDSA, X25519).
    fn build(full: bool) -> Pool {
        let mut s = vec![
            sig(SignatureScheme::Ed25519, "Ed25519", 1, false),
            sig(SignatureScheme::Ed25519, "Ed25519", 2, false),
            sig(SignatureScheme::Schnorr, "Schnorr", 3, false),
            sig(SignatureScheme::Schnorr, "Schnorr", 4, false),
            sig(SignatureScheme::Ecdsa, "ECDSA", 5, false),
            sig(SignatureScheme::Ecdsa, "ECDSA", 6, false),
        ];
        let mut e = vec![
            enc(EncapsulationScheme::X25519, "X25519", 1),
            enc(EncapsulationScheme::X25519, "X25519", 2),
            enc(EncapsulationScheme::X25519, "X25519", 3),
            enc(EncapsulationScheme::X25519, "X25519", 4),
        ];
        // two ML-KEM levels are always present: a key of one level meeting a message sealed to another
        // level is a case of its own (it used to panic in the key decapsulation)
        e.push(enc(EncapsulationScheme::MLKEM512, "ML-KEM-512", 5));
        e.push(enc(EncapsulationScheme::MLKEM768, "ML-KEM-768", 7));
        if full {
            s.push(sig(SignatureScheme::MLDSA44, "ML-DSA-44", 7, false));
            s.push(sig(SignatureScheme::MLDSA44, "ML-DSA-44", 8, false));
            s.push(sig(SignatureScheme::MLDSA65, "ML-DSA-65", 9, false));
            s.push(sig(SignatureScheme::MLDSA65, "ML-DSA-65", 10, false));
            s.push(sig(SignatureScheme::MLDSA87, "ML-DSA-87", 11, false));
            s.push(sig(SignatureScheme::MLDSA87, "ML-DSA-87", 12, false));
            s.push(sig(SignatureScheme::SshEd25519, "SSH-Ed25519", 13, true));
            s.push(sig(SignatureScheme::SshEd25519, "SSH-Ed25519", 14, true));
            s.push(sig(SignatureScheme::SshEcdsaP256, "SSH-ECDSA-P256", 15, true));
            s.push(sig(SignatureScheme::SshEcdsaP256, "SSH-ECDSA-P256", 16, true));
            s.push(sig(SignatureScheme::SshEcdsaP384, "SSH-ECDSA-P384", 17, true));
            s.push(sig(SignatureScheme::SshEcdsaP384, "SSH-ECDSA-P384", 18, true));
            s.push(sig(SignatureScheme::SshDsa, "SSH-DSA", 19, true));
            e.push(enc(EncapsulationScheme::MLKEM512, "ML-KEM-512", 6));
            e.push(enc(EncapsulationScheme::MLKEM768, "ML-KEM-768", 8));
            e.push(enc(EncapsulationScheme::MLKEM1024, "ML-KEM-1024", 9));
            e.push(enc(EncapsulationScheme::MLKEM1024, "ML-KEM-1024", 10));
        }
        Pool { sig: s, enc: e }
    }
}

thread_local! {
    static CORE: std::cell::OnceCell<Rc<Pool>> = std::cell::OnceCell::new();
    static FULL: std::cell::OnceCell<Rc<Pool>> = std::cell::OnceCell::new();
}

pub fn core_pool() -> Rc<Pool> {
    CORE.with(|c| c.get_or_init(|| Rc::new(Pool::build(false))).clone())
}

pub fn full_pool() -> Rc<Pool> {
    FULL.with(|c| c.get_or_init(|| Rc::new(Pool::build(true))).clone())
}
