//! Generators: leaf zoo, envelope specs, target sets. Everything is drawn from a `Src`.

use crate::cbor::Item;
use crate::model::{D32, M};
use crate::src::Src;
use std::collections::BTreeSet;

// ---------------------------------------------------------------------------------------------
// Leaves

/// A leaf value together with the *typed* constructor route used to hand it to the library.
#[derive(Clone, Debug, PartialEq)]
pub enum LeafSpec {
    U8(u8),
    U16(u16),
    U32(u32),
    U64(u64),
    Usize(usize),
    I8(i8),
    I16(i16),
    I32(i32),
    I64(i64),
    F32(f32),
    F64(f64),
    Str(String),
    Bytes(Vec<u8>),
    Bool(bool),
    Null,
    /// CBOR negative integer -1-n built through CBORCase::Negative (reaches -2^64)
    Neg(u64),
    Array(Vec<LeafSpec>),
    /// built through dcbor::Map with entries inserted in the given order
    Map(Vec<(LeafSpec, LeafSpec)>),
    Tagged(u64, Box<LeafSpec>),
    /// dcbor::Date from an integral or dyadic-fraction timestamp
    Date(f64),
    /// bc_components::Digest as a leaf (#6.40001(h'..'))
    DigestLeaf([u8; 32]),
    /// an envelope embedded as a leaf value: #6.201(#6.200(...))
    Embedded(Box<Spec>),
}

pub const POOL: [&str; 8] = ["Alice", "Bob", "knows", "name", "isA", "x", "", "Carol"];

pub fn marker(i: usize, src: &mut Src) -> String {
    const AL: &[u8] = b"abcdefghijklmnopqrstuvwxyzABCDEFGHIJKLMNOPQRSTUVWXYZ0123456789";
    let mut s = format!("MK{}-", i);
    for _ in 0..8 {
        s.push(AL[src.below(AL.len())] as char);
    }
    s
}

const U64_EDGES: [u64; 16] = [
    0, 1, 23, 24, 255, 256, 65535, 65536, 0xffff_ffff, 0x1_0000_0000, (1 << 53) - 1, 1 << 53, (1 << 63) - 1, 1 << 63, u64::MAX - 1, u64::MAX,
];
const F64_ZOO: [f64; 22] = [
    1.5,
    3.0,
    -3.0,
    0.0,
    -0.0,
    0.1,
    -0.1,
    1.0e300,
    5.960464477539063e-8, // smallest f16 subnormal
    6.103515625e-5,       // smallest f16 normal
    65504.0,              // largest f16
    65504.5,
    1.0e-45,              // f32 subnormal-ish
    3.4028234663852886e38, // f32 max
    f64::MIN_POSITIVE,
    5e-324,
    f64::INFINITY,
    f64::NEG_INFINITY,
    f64::NAN,
    9223372036854775808.0,  // 2^63
    18446744073709551616.0, // 2^64
    -18446744073709551616.0, // -2^64
];
const TEXT_ZOO: [&str; 10] = ["", "a", "héllo", "日本語", "naïve café", "🙂", "ÅÅ", "line\nbreak", "\"quoted\"", "Ω≈ç√∫"];

impl LeafSpec {
    /// What the specification says the leaf's CBOR item is.
    pub fn to_item(&self) -> Item {
        match self {
            LeafSpec::U8(v) => Item::U(*v as u64),
            LeafSpec::U16(v) => Item::U(*v as u64),
            LeafSpec::U32(v) => Item::U(*v as u64),
            LeafSpec::U64(v) => Item::U(*v),
            LeafSpec::Usize(v) => Item::U(*v as u64),
            LeafSpec::I8(v) => int_item(*v as i64),
            LeafSpec::I16(v) => int_item(*v as i64),
            LeafSpec::I32(v) => int_item(*v as i64),
            LeafSpec::I64(v) => int_item(*v),
            LeafSpec::F32(v) => Item::F(*v as f64),
            LeafSpec::F64(v) => Item::F(*v),
            LeafSpec::Str(s) => Item::T(s.clone()),
            LeafSpec::Bytes(b) => Item::B(b.clone()),
            LeafSpec::Bool(b) => {
                if *b {
                    Item::True
                } else {
                    Item::False
                }
            }
            LeafSpec::Null => Item::Null,
            LeafSpec::Neg(n) => Item::N(*n),
            LeafSpec::Array(xs) => Item::A(xs.iter().map(|x| x.to_item()).collect()),
            LeafSpec::Map(es) => Item::M(es.iter().map(|(k, v)| (k.to_item(), v.to_item())).collect()),
            LeafSpec::Tagged(t, i) => Item::Tag(*t, Box::new(i.to_item())),
            LeafSpec::Date(t) => Item::Tag(1, Box::new(Item::F(*t))),
            LeafSpec::DigestLeaf(d) => Item::Tag(crate::model::TAG_DIGEST, Box::new(Item::B(d.to_vec()))),
            LeafSpec::Embedded(_) => unreachable!("embedded handled by caller"),
        }
    }

    pub fn type_name(&self) -> &'static str {
        match self {
            LeafSpec::U8(_) | LeafSpec::U16(_) | LeafSpec::U32(_) | LeafSpec::U64(_) | LeafSpec::Usize(_) => "uint",
            LeafSpec::I8(_) | LeafSpec::I16(_) | LeafSpec::I32(_) | LeafSpec::I64(_) => "int",
            LeafSpec::F32(_) => "f32",
            LeafSpec::F64(_) => "f64",
            LeafSpec::Str(_) => "text",
            LeafSpec::Bytes(_) => "bytes",
            LeafSpec::Bool(_) => "bool",
            LeafSpec::Null => "null",
            LeafSpec::Neg(_) => "negint",
            LeafSpec::Array(_) => "array",
            LeafSpec::Map(_) => "map",
            LeafSpec::Tagged(..) => "tagged",
            LeafSpec::Date(_) => "date",
            LeafSpec::DigestLeaf(_) => "digest",
            LeafSpec::Embedded(_) => "embedded-envelope",
        }
    }
}

fn int_item(v: i64) -> Item {
    if v >= 0 {
        Item::U(v as u64)
    } else {
        Item::N((-1 - v) as u64)
    }
}

pub struct GenCfg {
    pub max_depth: usize,
    pub budget: usize,
    pub obscured: bool,
    /// every leaf a unique marker (C03 residue check)
    pub markers: bool,
    /// allow node-as-subject shapes (only buildable through bytes / reveal)
    pub node_subject: bool,
    pub zoo: bool,
    marker_count: usize,
}

impl GenCfg {
    pub fn new(max_depth: usize, budget: usize) -> Self {
        GenCfg { max_depth, budget, obscured: true, markers: false, node_subject: true, zoo: true, marker_count: 0 }
    }
}

fn gen_scalar_leaf(src: &mut Src) -> LeafSpec {
    match src.weighted(&[20, 6, 6, 6, 8, 4, 4, 4, 8, 6, 10, 8, 4, 3, 4]) {
        0 => LeafSpec::Str(POOL[src.below(POOL.len())].to_string()),
        1 => LeafSpec::U8(src.byte()),
        2 => LeafSpec::U16(src.u16()),
        3 => LeafSpec::U32(src.u32()),
        4 => {
            let e = U64_EDGES[src.below(U64_EDGES.len())];
            let d = src.below(3) as u64;
            LeafSpec::U64(e.wrapping_add(d).wrapping_sub(1))
        }
        5 => LeafSpec::I8(src.byte() as i8),
        6 => LeafSpec::I16(src.u16() as i16),
        7 => LeafSpec::I32(src.u32() as i32),
        8 => {
            let e = U64_EDGES[src.below(U64_EDGES.len())] as i64;
            let d = src.below(3) as i64 - 1;
            let v = e.wrapping_add(d);
            LeafSpec::I64(if src.bool() { v } else { v.wrapping_neg() })
        }
        9 => {
            let v = F64_ZOO[src.below(F64_ZOO.len())];
            LeafSpec::F32(v as f32)
        }
        10 => {
            if src.chance(64) {
                LeafSpec::F64(f64::from_bits(src.u64()))
            } else {
                LeafSpec::F64(F64_ZOO[src.below(F64_ZOO.len())])
            }
        }
        11 => LeafSpec::Str(TEXT_ZOO[src.below(TEXT_ZOO.len())].to_string()),
        12 => {
            let n = *src.pick(&[0usize, 1, 5, 23, 24, 32, 33, 300]);
            LeafSpec::Bytes(src.bytes(n))
        }
        13 => {
            if src.chance(85) {
                LeafSpec::Null
            } else {
                LeafSpec::Bool(src.bool())
            }
        }
        _ => LeafSpec::Neg(U64_EDGES[src.below(U64_EDGES.len())]),
    }
}

pub fn gen_leaf(src: &mut Src, cfg: &mut GenCfg, depth: usize) -> LeafSpec {
    if cfg.markers {
        let i = cfg.marker_count;
        cfg.marker_count += 1;
        return LeafSpec::Str(marker(i, src));
    }
    if !cfg.zoo {
        return LeafSpec::Str(POOL[src.below(POOL.len())].to_string());
    }
    match src.weighted(&[70, 6, 6, 6, 4, 3, 3]) {
        0 => gen_scalar_leaf(src),
        1 => {
            let n = src.below(4);
            LeafSpec::Array((0..n).map(|_| gen_scalar_leaf(src)).collect())
        }
        2 => {
            let n = src.range(0, 4);
            let mut es: Vec<(LeafSpec, LeafSpec)> = Vec::new();
            for _ in 0..n {
                let k = gen_scalar_leaf(src);
                let v = gen_scalar_leaf(src);
                // keys must be distinct *as CBOR* (1 and 1.0 are the same key)
                let kb = crate::cbor::encode(&k.to_item());
                if !es.iter().any(|(k2, _)| crate::cbor::encode(&k2.to_item()) == kb) {
                    es.push((k, v));
                }
            }
            LeafSpec::Map(es)
        }
        3 => {
            let t = *src.pick(&[0u64, 1, 23, 24, 32, 100, 200, 201, 40000, 40001, 65536, u64::MAX]);
            // tag 1 carries dates, 40001 digests; keep the content generic — the envelope layer treats leaf content as opaque CBOR
            LeafSpec::Tagged(t, Box::new(gen_scalar_leaf(src)))
        }
        4 => {
            let whole = (src.u32() as i64 - (1 << 31)) as f64;
            let frac = *src.pick(&[0.0, 0.0, 0.5, 0.25, 0.125]);
            let t = if whole < 0.0 { whole } else { whole + frac };
            LeafSpec::Date(t)
        }
        5 => {
            let mut d = [0u8; 32];
            for b in d.iter_mut() {
                *b = src.byte();
            }
            LeafSpec::DigestLeaf(d)
        }
        _ => {
            if depth + 1 >= cfg.max_depth || cfg.budget < 3 {
                gen_scalar_leaf(src)
            } else {
                LeafSpec::Embedded(Box::new(gen_env(src, cfg, depth + 2)))
            }
        }
    }
}

// ---------------------------------------------------------------------------------------------
// Envelope specs

#[derive(Clone, Copy, Debug, PartialEq, Eq)]
pub enum Obs {
    Elide,
    Encrypt,
    Compress,
}

#[derive(Clone, Debug, PartialEq)]
pub enum Spec {
    Leaf(LeafSpec),
    Known(u64),
    Assertion(Box<Spec>, Box<Spec>),
    Node(Box<Spec>, Vec<Spec>),
    Wrapped(Box<Spec>),
    /// `inner` is never itself `Obscured` at its top level
    Obscured(Obs, [u8; 12], Box<Spec>),
}

pub const KNOWN_POOL: [u64; 14] = [1, 2, 3, 4, 5, 6, 15, 16, 50, 51, 52, 100, 101, 102];

fn gen_known(src: &mut Src) -> u64 {
    match src.weighted(&[70, 15, 15]) {
        0 => KNOWN_POOL[src.below(KNOWN_POOL.len())],
        1 => src.below(600) as u64,
        _ => U64_EDGES[src.below(U64_EDGES.len())],
    }
}

fn gen_obs(src: &mut Src) -> (Obs, [u8; 12]) {
    let k = match src.below(3) {
        0 => Obs::Elide,
        1 => Obs::Encrypt,
        _ => Obs::Compress,
    };
    let mut n = [0u8; 12];
    if k == Obs::Encrypt {
        for b in n.iter_mut() {
            *b = src.byte();
        }
    }
    (k, n)
}

fn strip_top_obscured(s: Spec) -> Spec {
    match s {
        Spec::Obscured(_, _, inner) => strip_top_obscured(*inner),
        other => other,
    }
}

fn gen_subject(src: &mut Src, cfg: &mut GenCfg, depth: usize) -> Spec {
    cfg.budget = cfg.budget.saturating_sub(1);
    let deep = depth >= cfg.max_depth || cfg.budget == 0;
    let w_wrapped = if deep { 0 } else { 12 };
    let w_assert = if deep { 0 } else { 5 };
    let w_obs = if deep || !cfg.obscured { 0 } else { 9 };
    let w_nodesubj = if deep || !cfg.node_subject { 0 } else { 3 };
    match src.weighted(&[55, 12, w_wrapped, w_assert, w_obs, w_nodesubj]) {
        0 => Spec::Leaf(gen_leaf(src, cfg, depth)),
        1 => Spec::Known(gen_known(src)),
        2 => Spec::Wrapped(Box::new(gen_env(src, cfg, depth + 1))),
        3 => Spec::Assertion(Box::new(gen_pred(src, cfg, depth + 1)), Box::new(gen_env(src, cfg, depth + 1))),
        4 => {
            let (k, n) = gen_obs(src);
            let inner = strip_top_obscured(gen_env(src, cfg, depth + 1));
            Spec::Obscured(k, n, Box::new(inner))
        }
        _ => {
            // a node used as the subject of a node
            let inner = gen_env(src, cfg, depth + 1);
            match inner {
                Spec::Node(..) => inner,
                other => {
                    let a = gen_assertion_slot(src, cfg, depth + 1);
                    Spec::Node(Box::new(other), vec![a])
                }
            }
        }
    }
}

fn gen_pred(src: &mut Src, cfg: &mut GenCfg, depth: usize) -> Spec {
    match src.weighted(&[45, 35, 20]) {
        0 => {
            cfg.budget = cfg.budget.saturating_sub(1);
            if cfg.markers {
                Spec::Leaf(gen_leaf(src, cfg, depth))
            } else {
                Spec::Leaf(LeafSpec::Str(POOL[src.below(POOL.len())].to_string()))
            }
        }
        1 => {
            cfg.budget = cfg.budget.saturating_sub(1);
            Spec::Known(gen_known(src))
        }
        _ => gen_env(src, cfg, depth),
    }
}

fn gen_assertion_slot(src: &mut Src, cfg: &mut GenCfg, depth: usize) -> Spec {
    cfg.budget = cfg.budget.saturating_sub(1);
    let p = gen_pred(src, cfg, depth + 1);
    let o = gen_env(src, cfg, depth + 1);
    let mut a = Spec::Assertion(Box::new(p), Box::new(o));
    let deep = depth >= cfg.max_depth || cfg.budget == 0;
    if !deep && src.chance(36) {
        // assertion carrying its own assertions
        let n = 1 + src.below(2);
        let inner: Vec<Spec> = (0..n).map(|_| gen_assertion_slot(src, cfg, depth + 1)).collect();
        // ... whose own subject (the assertion proper) may in turn be obscured: what one gets by eliding /
        // encrypting / compressing the assertion inside a salted assertion
        if cfg.obscured && src.chance(50) {
            let (k, n) = gen_obs(src);
            a = Spec::Obscured(k, n, Box::new(a));
        }
        a = Spec::Node(Box::new(a), inner);
    }
    if cfg.obscured && src.chance(28) {
        let (k, n) = gen_obs(src);
        a = Spec::Obscured(k, n, Box::new(a));
    }
    a
}

pub fn gen_env(src: &mut Src, cfg: &mut GenCfg, depth: usize) -> Spec {
    let subject = gen_subject(src, cfg, depth);
    if depth >= cfg.max_depth || cfg.budget == 0 {
        return subject;
    }
    let n = if depth == 0 { src.weighted(&[15, 30, 20, 14, 9, 6, 4, 2]) } else { src.weighted(&[45, 22, 14, 8, 5, 3, 2, 1]) };
    if n == 0 {
        return subject;
    }
    let asr: Vec<Spec> = (0..n).map(|_| gen_assertion_slot(src, cfg, depth)).collect();
    match subject {
        // a node subject plus further assertions = node whose subject is a node
        s => Spec::Node(Box::new(s), asr),
    }
}

/// Top-level entry: an envelope spec, normalised (assertion digests unique per node).
pub fn gen_spec(src: &mut Src, cfg: &mut GenCfg) -> Spec {
    let s = gen_env(src, cfg, 0);
    normalize(s)
}

// ---------------------------------------------------------------------------------------------
// Spec -> model

pub struct Blobs<'a> {
    /// (plaintext = tagged CBOR of the hidden envelope, digest, nonce) -> full `#6.40002([...])` bytes
    pub encrypt: &'a dyn Fn(&[u8], &D32, &[u8; 12]) -> Vec<u8>,
    /// (tagged CBOR of the hidden envelope, digest) -> full `#6.40003([...])` bytes
    pub compress: &'a dyn Fn(&[u8], &D32) -> Vec<u8>,
}

pub fn to_model(s: &Spec, blobs: &Blobs) -> M {
    match s {
        Spec::Leaf(LeafSpec::Embedded(inner)) => {
            let im = to_model(inner, blobs);
            M::Leaf(im.tagged())
        }
        Spec::Leaf(l) => M::leaf_item(&l.to_item()),
        Spec::Known(v) => M::Known(*v),
        Spec::Assertion(p, o) => M::assertion(to_model(p, blobs), to_model(o, blobs)),
        Spec::Node(sub, a) => M::Node(Box::new(to_model(sub, blobs)), a.iter().map(|x| to_model(x, blobs)).collect()),
        Spec::Wrapped(i) => M::wrapped(to_model(i, blobs)),
        Spec::Obscured(k, nonce, inner) => {
            let im = to_model(inner, blobs);
            let d = im.digest();
            match k {
                Obs::Elide => M::Elided(d),
                Obs::Encrypt => M::Encrypted(d, (blobs.encrypt)(&im.tagged(), &d, nonce)),
                Obs::Compress => M::Compressed(d, (blobs.compress)(&im.tagged(), &d)),
            }
        }
    }
}

/// The same spec with every obscuration removed (the "original").
pub fn reveal_all(s: &Spec) -> Spec {
    match s {
        Spec::Leaf(LeafSpec::Embedded(i)) => Spec::Leaf(LeafSpec::Embedded(i.clone())),
        Spec::Leaf(_) | Spec::Known(_) => s.clone(),
        Spec::Assertion(p, o) => Spec::Assertion(Box::new(reveal_all(p)), Box::new(reveal_all(o))),
        Spec::Node(sub, a) => Spec::Node(Box::new(reveal_all(sub)), a.iter().map(reveal_all).collect()),
        Spec::Wrapped(i) => Spec::Wrapped(Box::new(reveal_all(i))),
        Spec::Obscured(_, _, i) => reveal_all(i),
    }
}

fn plain_digest(s: &Spec) -> D32 {
    let b = Blobs { encrypt: &|_, _, _| Vec::new(), compress: &|_, _| Vec::new() };
    to_model(s, &b).digest()
}

/// Make assertion digests unique within every node (a node's assertions are a set).
pub fn normalize(s: Spec) -> Spec {
    match s {
        Spec::Leaf(LeafSpec::Embedded(i)) => Spec::Leaf(LeafSpec::Embedded(Box::new(normalize(*i)))),
        Spec::Leaf(_) | Spec::Known(_) => s,
        Spec::Assertion(p, o) => Spec::Assertion(Box::new(normalize(*p)), Box::new(normalize(*o))),
        Spec::Wrapped(i) => Spec::Wrapped(Box::new(normalize(*i))),
        Spec::Obscured(k, n, i) => Spec::Obscured(k, n, Box::new(normalize(*i))),
        Spec::Node(sub, a) => {
            let sub = normalize(*sub);
            let mut seen: BTreeSet<D32> = BTreeSet::new();
            let mut out = Vec::new();
            for x in a {
                let x = normalize(x);
                if seen.insert(plain_digest(&x)) {
                    out.push(x);
                }
            }
            Spec::Node(Box::new(sub), out)
        }
    }
}

// ---------------------------------------------------------------------------------------------
// Target sets

/// Random subset of the model's element digests, optionally with absent digests.
pub fn gen_targets(src: &mut Src, m: &M, allow_absent: bool) -> BTreeSet<D32> {
    let els = m.elements();
    let mut t = BTreeSet::new();
    let mode = src.weighted(&[10, 40, 25, 15, 10]);
    match mode {
        0 => {}
        1 => {
            t.insert(els[src.below(els.len())].digest());
        }
        2 => {
            for _ in 0..2 + src.below(3) {
                t.insert(els[src.below(els.len())].digest());
            }
        }
        3 => {
            // dense: each element with probability ~1/3
            for e in &els {
                if src.chance(85) {
                    t.insert(e.digest());
                }
            }
        }
        _ => {
            // nearly everything (interesting for revealing mode)
            for e in &els {
                if !src.chance(40) {
                    t.insert(e.digest());
                }
            }
        }
    }
    if allow_absent && src.chance(40) {
        for _ in 0..1 + src.below(2) {
            let mut d = [0u8; 32];
            for b in d.iter_mut() {
                *b = src.byte();
            }
            d[0] ^= 0xa5;
            t.insert(d);
        }
    }
    t
}

/// Target set suited to *revealing* mode: a few chosen elements together with all their ancestors
/// (so that something stays visible), sometimes with one ancestor left out.
pub fn gen_reveal_targets(src: &mut Src, m: &M) -> BTreeSet<D32> {
    // pre-order with parent index
    let mut els: Vec<(&M, Option<usize>)> = Vec::new();
    fn rec<'a>(m: &'a M, parent: Option<usize>, out: &mut Vec<(&'a M, Option<usize>)>) {
        let me = out.len();
        out.push((m, parent));
        for c in m.children() {
            rec(c, Some(me), out);
        }
    }
    rec(m, None, &mut els);
    let mut t = BTreeSet::new();
    let picks = 1 + src.below(4);
    for _ in 0..picks {
        let mut i = src.below(els.len());
        loop {
            t.insert(els[i].0.digest());
            match els[i].1 {
                Some(p) => i = p,
                None => break,
            }
        }
    }
    if src.chance(30) && t.len() > 1 {
        // drop one (often an ancestor): everything below it must disappear
        let v: Vec<D32> = t.iter().cloned().collect();
        t.remove(&v[src.below(v.len())]);
    }
    t
}
