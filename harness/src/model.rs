//! Reference model of the Gordian Envelope data model (spec §3–§4 + documented extensions).
//! Independent of bc-envelope: own digests (sha2), own encoder, own recogniser.

use crate::cbor::{self, Kind, Node};
use sha2::{Digest as _, Sha256};
use std::collections::BTreeSet;

pub type D32 = [u8; 32];

pub const TAG_ENVELOPE: u64 = 200;
pub const TAG_LEAF: u64 = 201;
pub const TAG_ENCODED_CBOR: u64 = 24;
pub const TAG_KNOWN_VALUE: u64 = 40000;
pub const TAG_DIGEST: u64 = 40001;
pub const TAG_ENCRYPTED: u64 = 40002;
pub const TAG_COMPRESSED: u64 = 40003;

pub fn sha(data: &[u8]) -> D32 {
    let mut h = Sha256::new();
    h.update(data);
    h.finalize().into()
}

#[derive(Clone, Debug, PartialEq)]
pub enum M {
    /// the dCBOR encoding of the leaf item (without the #6.201 tag)
    Leaf(Vec<u8>),
    Known(u64),
    Assertion(Box<M>, Box<M>),
    /// subject, assertion elements (a set: order irrelevant, kept as given)
    Node(Box<M>, Vec<M>),
    Wrapped(Box<M>),
    Elided(D32),
    /// declared digest + the complete `#6.40002([...])` item bytes
    Encrypted(D32, Vec<u8>),
    /// declared digest + the complete `#6.40003([...])` item bytes
    Compressed(D32, Vec<u8>),
}

#[derive(Clone, Copy, Debug, PartialEq, Eq, Hash, PartialOrd, Ord)]
pub enum CaseKind {
    Leaf,
    Known,
    Assertion,
    Node,
    Wrapped,
    Elided,
    Encrypted,
    Compressed,
}

impl M {
    pub fn leaf_item(item: &cbor::Item) -> M {
        M::Leaf(cbor::encode(item))
    }
    pub fn text(s: &str) -> M {
        M::leaf_item(&cbor::Item::T(s.to_string()))
    }
    pub fn assertion(p: M, o: M) -> M {
        M::Assertion(Box::new(p), Box::new(o))
    }
    pub fn node(s: M, a: Vec<M>) -> M {
        M::Node(Box::new(s), a)
    }
    pub fn wrapped(i: M) -> M {
        M::Wrapped(Box::new(i))
    }

    pub fn kind(&self) -> CaseKind {
        match self {
            M::Leaf(_) => CaseKind::Leaf,
            M::Known(_) => CaseKind::Known,
            M::Assertion(..) => CaseKind::Assertion,
            M::Node(..) => CaseKind::Node,
            M::Wrapped(_) => CaseKind::Wrapped,
            M::Elided(_) => CaseKind::Elided,
            M::Encrypted(..) => CaseKind::Encrypted,
            M::Compressed(..) => CaseKind::Compressed,
        }
    }

    pub fn is_obscured(&self) -> bool {
        matches!(self, M::Elided(_) | M::Encrypted(..) | M::Compressed(..))
    }

    /// Digest per spec §4.
    pub fn digest(&self) -> D32 {
        match self {
            M::Leaf(bytes) => sha(bytes),
            M::Known(v) => {
                let mut b = Vec::new();
                cbor::head(6, TAG_KNOWN_VALUE, &mut b);
                cbor::head(0, *v, &mut b);
                sha(&b)
            }
            M::Assertion(p, o) => {
                let mut b = p.digest().to_vec();
                b.extend_from_slice(&o.digest());
                sha(&b)
            }
            M::Node(s, a) => {
                let mut ds: Vec<D32> = a.iter().map(|x| x.digest()).collect();
                ds.sort();
                let mut b = s.digest().to_vec();
                for d in ds {
                    b.extend_from_slice(&d);
                }
                sha(&b)
            }
            M::Wrapped(i) => sha(&i.digest()),
            M::Elided(d) | M::Encrypted(d, _) | M::Compressed(d, _) => *d,
        }
    }

    pub fn subject(&self) -> &M {
        match self {
            M::Node(s, _) => s,
            _ => self,
        }
    }

    pub fn assertions(&self) -> &[M] {
        match self {
            M::Node(_, a) => a,
            _ => &[],
        }
    }

    /// Assertion elements sorted by digest (the canonical order).
    pub fn sorted_assertions(&self) -> Vec<&M> {
        let mut v: Vec<&M> = self.assertions().iter().collect();
        v.sort_by_key(|x| x.digest());
        v
    }

    /// Untagged envelope encoding, spec §3.
    pub fn encode_untagged(&self, out: &mut Vec<u8>) {
        match self {
            M::Leaf(bytes) => {
                cbor::head(6, TAG_LEAF, out);
                out.extend_from_slice(bytes);
            }
            M::Known(v) => cbor::head(0, *v, out),
            M::Assertion(p, o) => {
                cbor::head(5, 1, out);
                p.encode_untagged(out);
                o.encode_untagged(out);
            }
            M::Node(s, _) => {
                let a = self.sorted_assertions();
                cbor::head(4, 1 + a.len() as u64, out);
                s.encode_untagged(out);
                for x in a {
                    x.encode_untagged(out);
                }
            }
            M::Wrapped(i) => {
                cbor::head(6, TAG_ENVELOPE, out);
                i.encode_untagged(out);
            }
            M::Elided(d) => {
                cbor::head(2, 32, out);
                out.extend_from_slice(d);
            }
            M::Encrypted(_, raw) | M::Compressed(_, raw) => out.extend_from_slice(raw),
        }
    }

    pub fn untagged(&self) -> Vec<u8> {
        let mut out = Vec::new();
        self.encode_untagged(&mut out);
        out
    }

    /// `#6.200(...)` — what `to_cbor_data()` / `tagged_cbor()` must produce.
    pub fn tagged(&self) -> Vec<u8> {
        let mut out = Vec::new();
        cbor::head(6, TAG_ENVELOPE, &mut out);
        self.encode_untagged(&mut out);
        out
    }

    /// True when the element may occupy an assertion slot of a node.
    pub fn slot_valid(&self) -> bool {
        match self {
            M::Assertion(..) => true,
            M::Elided(_) | M::Encrypted(..) | M::Compressed(..) => true,
            M::Node(s, _) => s.slot_valid(),
            _ => false,
        }
    }

    pub fn elements_count(&self) -> usize {
        1 + match self {
            M::Node(s, a) => s.elements_count() + a.iter().map(|x| x.elements_count()).sum::<usize>(),
            M::Assertion(p, o) => p.elements_count() + o.elements_count(),
            M::Wrapped(i) => i.elements_count(),
            _ => 0,
        }
    }

    pub fn depth(&self) -> usize {
        1 + match self {
            M::Node(s, a) => s.depth().max(a.iter().map(|x| x.depth()).max().unwrap_or(0)),
            M::Assertion(p, o) => p.depth().max(o.depth()),
            M::Wrapped(i) => i.depth(),
            _ => 0,
        }
    }

    /// Children in canonical (structure-walk) order.
    pub fn children(&self) -> Vec<&M> {
        match self {
            M::Node(s, _) => {
                let mut v: Vec<&M> = vec![s];
                v.extend(self.sorted_assertions());
                v
            }
            M::Assertion(p, o) => vec![p, o],
            M::Wrapped(i) => vec![i],
            _ => vec![],
        }
    }

    /// Pre-order list of all elements (canonical order).
    pub fn elements(&self) -> Vec<&M> {
        let mut out = Vec::new();
        fn rec<'a>(m: &'a M, out: &mut Vec<&'a M>) {
            out.push(m);
            for c in m.children() {
                rec(c, out);
            }
        }
        rec(self, &mut out);
        out
    }

    pub fn all_digests(&self) -> BTreeSet<D32> {
        self.elements().iter().map(|e| e.digest()).collect()
    }

    pub fn count_obscured(&self) -> usize {
        self.elements().iter().filter(|e| e.is_obscured()).count()
    }

    /// Pre-order (path, kind) list of obscured positions: the "obscuration signature" of C14.
    pub fn obscuration_signature(&self) -> Vec<(Vec<usize>, CaseKind)> {
        let mut out = Vec::new();
        fn rec(m: &M, path: &mut Vec<usize>, out: &mut Vec<(Vec<usize>, CaseKind)>) {
            if m.is_obscured() {
                out.push((path.clone(), m.kind()));
            }
            for (i, c) in m.children().into_iter().enumerate() {
                path.push(i);
                rec(c, path, out);
                path.pop();
            }
        }
        rec(self, &mut Vec::new(), &mut out);
        out
    }

    // ---- documented operation semantics -------------------------------------------------------

    /// add_assertion_envelope: idempotent by digest; a non-node becomes a node.
    pub fn add(&self, a: M) -> M {
        match self {
            M::Node(s, asr) => {
                let d = a.digest();
                if asr.iter().any(|x| x.digest() == d) {
                    self.clone()
                } else {
                    let mut v = asr.clone();
                    v.push(a);
                    M::Node(s.clone(), v)
                }
            }
            _ => M::Node(Box::new(self.clone()), vec![a]),
        }
    }

    /// remove_assertion: by digest; last removal collapses to the subject.
    pub fn remove(&self, target: &D32) -> M {
        match self {
            M::Node(s, asr) => {
                if let Some(i) = asr.iter().position(|x| &x.digest() == target) {
                    let mut v = asr.clone();
                    v.remove(i);
                    if v.is_empty() {
                        (**s).clone()
                    } else {
                        M::Node(s.clone(), v)
                    }
                } else {
                    self.clone()
                }
            }
            _ => self.clone(),
        }
    }

    /// Visibility rule of C03. `reveal=false`: hidden iff own or an ancestor's digest ∈ T.
    /// `reveal=true`: visible iff own and all ancestors' digests ∈ T.
    /// `hide` says what a hidden, not-yet-obscured element becomes.
    pub fn elide_set(&self, t: &BTreeSet<D32>, reveal: bool, hide: &dyn Fn(&M) -> M) -> M {
        let d = self.digest();
        if t.contains(&d) != reveal {
            return hide(self);
        }
        match self {
            M::Assertion(p, o) => M::assertion(p.elide_set(t, reveal, hide), o.elide_set(t, reveal, hide)),
            M::Node(s, a) => M::Node(
                Box::new(s.elide_set(t, reveal, hide)),
                a.iter().map(|x| x.elide_set(t, reveal, hide)).collect(),
            ),
            M::Wrapped(i) => M::wrapped(i.elide_set(t, reveal, hide)),
            _ => self.clone(),
        }
    }

    pub fn elided(&self) -> M {
        M::Elided(self.digest())
    }

    /// One-line envelope-ish notation for samples.
    pub fn show(&self) -> String {
        match self {
            M::Leaf(b) => cbor::diag_bytes(b),
            M::Known(v) => format!("'{}'", v),
            M::Assertion(p, o) => format!("{}: {}", p.show(), o.show()),
            M::Node(s, _) => {
                let a = self.sorted_assertions();
                format!("{} [ {} ]", s.show_subj(), a.iter().map(|x| x.show_slot()).collect::<Vec<_>>().join(", "))
            }
            M::Wrapped(i) => format!("{{ {} }}", i.show()),
            M::Elided(_) => "ELIDED".into(),
            M::Encrypted(..) => "ENCRYPTED".into(),
            M::Compressed(..) => "COMPRESSED".into(),
        }
    }
    fn show_subj(&self) -> String {
        match self {
            M::Node(..) | M::Assertion(..) => format!("<{}>", self.show()),
            _ => self.show(),
        }
    }
    fn show_slot(&self) -> String {
        match self {
            M::Node(..) => format!("({})", self.show()),
            _ => self.show(),
        }
    }
}

// ---------------------------------------------------------------------------------------------
// Recogniser: bytes -> M, enforcing the envelope grammar.

#[derive(Debug, Clone, PartialEq)]
pub enum Why {
    NotCbor(cbor::ParseError),
    NotTaggedEnvelope,
    NodeArity,
    SlotInvalid,
    Order,
    Duplicate,
    UnknownTag(u64),
    DigestLength,
    AssertionMap,
    BadType,
    EncryptedShape,
    CompressedShape,
    MissingDigest,
}

pub struct Recognised {
    pub m: M,
    /// input used the deprecated #6.24 leaf tag somewhere
    pub legacy_leaf_positions: Vec<usize>,
}

fn digest_from_tagged(d: &[u8], n: &Node) -> Option<D32> {
    // #6.40001(h'32 bytes')
    if let Kind::Tag(TAG_DIGEST, inner) = &n.kind {
        if let Kind::B(a, b) = inner.kind {
            if b - a == 32 {
                return Some(d[a..b].try_into().unwrap());
            }
        }
    }
    None
}

fn recog(d: &[u8], n: &Node, legacy: &mut Vec<usize>) -> Result<M, Why> {
    match &n.kind {
        Kind::Tag(t, inner) => match *t {
            TAG_LEAF | TAG_ENCODED_CBOR => {
                if *t == TAG_ENCODED_CBOR {
                    legacy.push(n.start);
                }
                Ok(M::Leaf(d[inner.start..inner.end].to_vec()))
            }
            TAG_ENVELOPE => Ok(M::wrapped(recog(d, inner, legacy)?)),
            TAG_ENCRYPTED => {
                // [ciphertext, nonce(12), auth(16), aad = dCBOR of #6.40001(digest)]
                if let Kind::A(xs) = &inner.kind {
                    if xs.len() < 3 {
                        return Err(Why::EncryptedShape);
                    }
                    for (i, x) in xs.iter().take(4).enumerate() {
                        match x.kind {
                            Kind::B(a, b) => {
                                if (i == 1 && b - a != 12) || (i == 2 && b - a != 16) {
                                    return Err(Why::EncryptedShape);
                                }
                            }
                            _ => return Err(Why::EncryptedShape),
                        }
                    }
                    if xs.len() < 4 {
                        return Err(Why::MissingDigest);
                    }
                    if let Kind::B(a, b) = xs[3].kind {
                        if let Ok(p) = cbor::parse(&d[a..b]) {
                            if let Some(dg) = digest_from_tagged(&d[a..b], &p.root) {
                                return Ok(M::Encrypted(dg, d[n.start..n.end].to_vec()));
                            }
                        }
                    }
                    Err(Why::MissingDigest)
                } else {
                    Err(Why::EncryptedShape)
                }
            }
            TAG_COMPRESSED => {
                // [checksum u32, size, data bstr, #6.40001(digest)]
                if let Kind::A(xs) = &inner.kind {
                    if xs.len() < 3 || xs.len() > 4 {
                        return Err(Why::CompressedShape);
                    }
                    if !matches!(xs[0].kind, Kind::U(v) if v <= u32::MAX as u64) || !matches!(xs[1].kind, Kind::U(_)) || !matches!(xs[2].kind, Kind::B(..)) {
                        return Err(Why::CompressedShape);
                    }
                    if xs.len() < 4 {
                        return Err(Why::MissingDigest);
                    }
                    match digest_from_tagged(d, &xs[3]) {
                        Some(dg) => Ok(M::Compressed(dg, d[n.start..n.end].to_vec())),
                        None => Err(Why::CompressedShape),
                    }
                } else {
                    Err(Why::CompressedShape)
                }
            }
            other => Err(Why::UnknownTag(other)),
        },
        Kind::B(a, b) => {
            if b - a != 32 {
                return Err(Why::DigestLength);
            }
            Ok(M::Elided(d[*a..*b].try_into().unwrap()))
        }
        Kind::A(xs) => {
            if xs.len() < 2 {
                return Err(Why::NodeArity);
            }
            let subject = recog(d, &xs[0], legacy)?;
            let mut asr = Vec::new();
            for x in &xs[1..] {
                asr.push(recog(d, x, legacy)?);
            }
            for a in &asr {
                if !a.slot_valid() {
                    return Err(Why::SlotInvalid);
                }
            }
            let ds: Vec<D32> = asr.iter().map(|a| a.digest()).collect();
            for w in ds.windows(2) {
                if w[0] == w[1] {
                    return Err(Why::Duplicate);
                }
                if w[0] > w[1] {
                    // could still contain a duplicate further on; classify precisely
                    let mut s = ds.clone();
                    s.sort();
                    if s.windows(2).any(|w| w[0] == w[1]) {
                        return Err(Why::Duplicate);
                    }
                    return Err(Why::Order);
                }
            }
            Ok(M::Node(Box::new(subject), asr))
        }
        Kind::M(es) => {
            if es.len() != 1 {
                return Err(Why::AssertionMap);
            }
            let p = recog(d, &es[0].0, legacy)?;
            let o = recog(d, &es[0].1, legacy)?;
            Ok(M::assertion(p, o))
        }
        Kind::U(v) => Ok(M::Known(*v)),
        _ => Err(Why::BadType),
    }
}

/// Recognise a *tagged* envelope (`#6.200(...)`), as `try_from_cbor_data` expects.
pub fn parse_tagged(d: &[u8]) -> Result<(Recognised, cbor::Parsed), Why> {
    let p = cbor::parse(d).map_err(Why::NotCbor)?;
    let mut legacy = Vec::new();
    let m = match &p.root.kind {
        Kind::Tag(TAG_ENVELOPE, inner) => recog(d, inner, &mut legacy)?,
        _ => return Err(Why::NotTaggedEnvelope),
    };
    Ok((Recognised { m, legacy_leaf_positions: legacy }, p))
}

pub fn hex32(d: &D32) -> String {
    hex::encode(&d[..4])
}
