//! Library <-> model bridge: read a library envelope out into a model value, build a library
//! envelope for a spec along two independent routes, and compare position-wise.

use crate::cbor;
use crate::gen::{Blobs, LeafSpec, Obs, Spec};
use crate::model::{self, D32, M};
use crate::src::Src;
use bc_components::{Compressed, Digest, DigestProvider, Nonce, SymmetricKey};
use bc_envelope::base::envelope::EnvelopeCase;
use bc_envelope::prelude::*;
use bc_envelope::KnownValue;
use dcbor::prelude::*;
use std::collections::{BTreeSet, HashSet};

pub fn d32(d: &Digest) -> D32 {
    *d.data()
}

pub fn dig(d: &D32) -> Digest {
    Digest::from_data(*d)
}

pub fn to_hashset(t: &BTreeSet<D32>) -> HashSet<Digest> {
    t.iter().map(dig).collect()
}

/// The fixed symmetric key used for element-level encryption in generated cases.
pub fn case_key() -> SymmetricKey {
    SymmetricKey::from_data_ref([0x42u8; 32]).unwrap()
}

pub fn other_key() -> SymmetricKey {
    SymmetricKey::from_data_ref([0x17u8; 32]).unwrap()
}

pub fn encrypt_blob(key: &SymmetricKey, plaintext: &[u8], digest: &D32, nonce: &[u8; 12]) -> Vec<u8> {
    let n = Nonce::from_data_ref(nonce).unwrap();
    let msg = key.encrypt_with_digest(plaintext.to_vec(), dig(digest), Some(n));
    msg.tagged_cbor().to_cbor_data()
}

pub fn compress_blob(plaintext: &[u8], digest: &D32) -> Vec<u8> {
    Compressed::from_uncompressed_data(plaintext.to_vec(), Some(dig(digest))).tagged_cbor().to_cbor_data()
}

pub fn spec_model(s: &Spec) -> M {
    let key = case_key();
    let enc = |p: &[u8], d: &D32, n: &[u8; 12]| encrypt_blob(&key, p, d, n);
    let cmp = |p: &[u8], d: &D32| compress_blob(p, d);
    crate::gen::to_model(s, &Blobs { encrypt: &enc, compress: &cmp })
}

/// Read a library envelope into a model value through `case()` only. Assertion order is kept as
/// the library holds it. Encrypted / compressed elements are re-parsed from their own bytes by the
/// harness recogniser (so the declared digest is read independently).
pub fn read_out(e: &Envelope) -> Result<M, String> {
    Ok(match e.case() {
        EnvelopeCase::Leaf { cbor, .. } => M::Leaf(cbor.to_cbor_data()),
        EnvelopeCase::KnownValue { value, .. } => M::Known(value.value()),
        EnvelopeCase::Assertion(a) => M::assertion(read_out(&a.predicate())?, read_out(&a.object())?),
        EnvelopeCase::Node { subject, assertions, .. } => {
            let mut v = Vec::new();
            for a in assertions {
                v.push(read_out(a)?);
            }
            M::Node(Box::new(read_out(subject)?), v)
        }
        EnvelopeCase::Wrapped { envelope, .. } => M::wrapped(read_out(envelope)?),
        EnvelopeCase::Elided(d) => M::Elided(d32(d)),
        EnvelopeCase::Encrypted(msg) => {
            let raw = msg.tagged_cbor().to_cbor_data();
            let mut t = Vec::new();
            cbor::head(6, model::TAG_ENVELOPE, &mut t);
            t.extend_from_slice(&raw);
            match model::parse_tagged(&t) {
                Ok((r, _)) => r.m,
                Err(w) => return Err(format!("encrypted element not recognisable: {:?}", w)),
            }
        }
        EnvelopeCase::Compressed(c) => {
            let raw = c.tagged_cbor().to_cbor_data();
            let mut t = Vec::new();
            cbor::head(6, model::TAG_ENVELOPE, &mut t);
            t.extend_from_slice(&raw);
            match model::parse_tagged(&t) {
                Ok((r, _)) => r.m,
                Err(w) => return Err(format!("compressed element not recognisable: {:?}", w)),
            }
        }
    })
}

/// Position-wise agreement of two model values. Assertion elements are compared in canonical
/// (digest-sorted) order. Ciphertext bytes are not compared (nonces differ); compressed blobs are.
pub fn agree(a: &M, b: &M) -> Result<(), String> {
    fn rec(a: &M, b: &M, path: &mut Vec<usize>) -> Result<(), String> {
        if a.kind() != b.kind() {
            return Err(format!("case differs at {:?}: {:?} vs {:?}", path, a.kind(), b.kind()));
        }
        match (a, b) {
            (M::Leaf(x), M::Leaf(y)) => {
                if x != y {
                    return Err(format!("leaf bytes differ at {:?}", path));
                }
            }
            (M::Known(x), M::Known(y)) => {
                if x != y {
                    return Err(format!("known value differs at {:?}", path));
                }
            }
            (M::Compressed(_, x), M::Compressed(_, y)) => {
                if x != y {
                    // blobs may differ only through ciphertext nested inside: compare the contents
                    match (crate::ops::model_uncompress(x), crate::ops::model_uncompress(y)) {
                        (Some(hx), Some(hy)) => {
                            path.push(usize::MAX);
                            rec(&hx, &hy, path)?;
                            path.pop();
                        }
                        _ => return Err(format!("compressed blob differs at {:?} and one side does not uncompress", path)),
                    }
                }
            }
            (M::Encrypted(_, x), M::Encrypted(_, y)) => {
                // ciphertexts differ by nonce; when both open with the case key the contents must agree
                let k = case_key();
                if let (Some(hx), Some(hy)) = (crate::ops::model_decrypt(x, &k), crate::ops::model_decrypt(y, &k)) {
                    path.push(usize::MAX);
                    rec(&hx, &hy, path)?;
                    path.pop();
                }
            }
            _ => {}
        }
        let ca = a.children();
        let cb = b.children();
        if ca.len() != cb.len() {
            return Err(format!("child count differs at {:?}: {} vs {}", path, ca.len(), cb.len()));
        }
        for (i, (x, y)) in ca.iter().zip(cb.iter()).enumerate() {
            path.push(i);
            rec(x, y, path)?;
            path.pop();
        }
        if a.digest() != b.digest() {
            return Err(format!("digest differs at {:?} ({:?}): {} vs {} [{} vs {}]", path, a.kind(), hex::encode(a.digest()), hex::encode(b.digest()), a.show(), b.show()));
        }
        Ok(())
    }
    rec(a, b, &mut Vec::new())
}

/// C01 layer 1: the digest the library reports for every element reached by `walk` equals the
/// digest the model computes bottom-up from the structure read through `case()`; also checks that
/// the library holds assertion elements in strictly ascending digest order.
pub fn check_digests(e: &Envelope) -> Result<M, String> {
    let m = read_out(e)?;
    fn rec(e: &Envelope, m: &M, path: &mut Vec<usize>) -> Result<(), String> {
        let ld = d32(&e.digest());
        let md = m.digest();
        if ld != md {
            return Err(format!(
                "library digest {} != spec digest {} at {:?} ({:?})",
                hex::encode(ld),
                hex::encode(md),
                path,
                m.kind()
            ));
        }
        match (e.case(), m) {
            (EnvelopeCase::Node { subject, assertions, .. }, M::Node(ms, ma)) => {
                if assertions.is_empty() {
                    return Err(format!("node without assertions at {:?}", path));
                }
                path.push(0);
                rec(subject, ms, path)?;
                path.pop();
                let mut prev: Option<D32> = None;
                for (i, (a, am)) in assertions.iter().zip(ma.iter()).enumerate() {
                    let d = am.digest();
                    if let Some(p) = prev {
                        if p >= d {
                            return Err(format!("assertion elements not strictly ascending at {:?} index {}", path, i));
                        }
                    }
                    prev = Some(d);
                    if !am.slot_valid() {
                        return Err(format!("non-assertion in assertion slot at {:?} index {}", path, i));
                    }
                    path.push(i + 1);
                    rec(a, am, path)?;
                    path.pop();
                }
            }
            (EnvelopeCase::Assertion(a), M::Assertion(mp, mo)) => {
                path.push(0);
                rec(&a.predicate(), mp, path)?;
                path.pop();
                path.push(1);
                rec(&a.object(), mo, path)?;
                path.pop();
            }
            (EnvelopeCase::Wrapped { envelope, .. }, M::Wrapped(mi)) => {
                path.push(0);
                rec(envelope, mi, path)?;
                path.pop();
            }
            _ => {}
        }
        Ok(())
    }
    rec(e, &m, &mut Vec::new())?;
    Ok(m)
}

/// C01 layer 2 / C04: the emitted bytes parse (harness parser + recogniser) to a tree that agrees
/// with the structure and whose recomputed digests equal the library's.
pub fn check_bytes(e: &Envelope, m: &M) -> Result<Vec<u8>, String> {
    let bytes = e.to_cbor_data();
    let (r, parsed) = model::parse_tagged(&bytes).map_err(|w| format!("emitted bytes rejected by the envelope grammar: {:?}; bytes {}", w, hex::encode(&bytes)))?;
    if !parsed.noncanonical.is_empty() {
        return Err(format!("emitted bytes are not deterministic CBOR: {:?}", parsed.noncanonical));
    }
    if !r.legacy_leaf_positions.is_empty() {
        return Err("emitted bytes use the deprecated #6.24 leaf tag".into());
    }
    agree(&r.m, m).map_err(|s| format!("bytes vs structure: {}", s))?;
    // the model's own encoding of the read-out structure must be byte-identical
    let mb = m.tagged();
    if mb != bytes {
        return Err(format!("emitted bytes differ from the spec encoding of the same structure: lib {} model {}", hex::encode(&bytes), hex::encode(&mb)));
    }
    Ok(bytes)
}

// ---------------------------------------------------------------------------------------------
// Building library values

pub fn leaf_cbor(l: &LeafSpec) -> CBOR {
    match l {
        LeafSpec::U8(v) => (*v).into(),
        LeafSpec::U16(v) => (*v).into(),
        LeafSpec::U32(v) => (*v).into(),
        LeafSpec::U64(v) => (*v).into(),
        LeafSpec::Usize(v) => (*v).into(),
        LeafSpec::I8(v) => (*v).into(),
        LeafSpec::I16(v) => (*v).into(),
        LeafSpec::I32(v) => (*v).into(),
        LeafSpec::I64(v) => (*v).into(),
        // dcbor's own From<f32> mis-reduces integral values (dependency defect, see DESIGN §1.3);
        // a caller handing CBOR to the envelope is modelled as using the exact f64 route.
        LeafSpec::F32(v) => (*v as f64).into(),
        LeafSpec::F64(v) => (*v).into(),
        LeafSpec::Str(s) => s.as_str().into(),
        LeafSpec::Bytes(b) => CBOR::to_byte_string(b),
        LeafSpec::Bool(b) => (*b).into(),
        LeafSpec::Null => CBOR::null(),
        LeafSpec::Neg(n) => CBORCase::Negative(*n).into(),
        LeafSpec::Array(xs) => xs.iter().map(leaf_cbor).collect::<Vec<CBOR>>().into(),
        LeafSpec::Map(es) => {
            let mut m = dcbor::Map::new();
            for (k, v) in es {
                m.insert(leaf_cbor(k), leaf_cbor(v));
            }
            m.into()
        }
        LeafSpec::Tagged(t, i) => CBOR::to_tagged_value(*t, leaf_cbor(i)),
        LeafSpec::Date(t) => dcbor::Date::from_timestamp(*t).into(),
        LeafSpec::DigestLeaf(d) => dig(d).into(),
        LeafSpec::Embedded(s) => build_a(s, &mut Src::new(&[])).into(),
    }
}

/// Typed-constructor route for a leaf.
pub fn leaf_envelope(l: &LeafSpec, src: &mut Src) -> Envelope {
    let via_cbor = src.chance(64);
    if via_cbor {
        return Envelope::new(leaf_cbor(l));
    }
    match l {
        LeafSpec::U8(v) => Envelope::new(*v),
        LeafSpec::U16(v) => Envelope::new(*v),
        LeafSpec::U32(v) => Envelope::new(*v),
        LeafSpec::U64(v) => Envelope::new(*v),
        LeafSpec::Usize(v) => Envelope::new(*v),
        LeafSpec::I8(v) => Envelope::new(*v),
        LeafSpec::I16(v) => Envelope::new(*v),
        LeafSpec::I32(v) => Envelope::new(*v),
        LeafSpec::I64(v) => Envelope::new(*v),
        LeafSpec::F32(v) => Envelope::new(*v),
        LeafSpec::F64(v) => Envelope::new(*v),
        LeafSpec::Str(s) => {
            if src.bool() {
                Envelope::new(s.as_str())
            } else {
                Envelope::new(s.clone())
            }
        }
        LeafSpec::Bytes(b) => Envelope::new(dcbor::ByteString::new(b.clone())),
        LeafSpec::Bool(b) => {
            if src.bool() {
                Envelope::new(*b)
            } else if *b {
                Envelope::r#true()
            } else {
                Envelope::r#false()
            }
        }
        LeafSpec::Null => Envelope::null(),
        LeafSpec::Date(t) => Envelope::new(dcbor::Date::from_timestamp(*t)),
        LeafSpec::DigestLeaf(d) => Envelope::new(dig(d)),
        LeafSpec::Array(xs) => Envelope::new(xs.iter().map(leaf_cbor).collect::<Vec<CBOR>>()),
        LeafSpec::Map(es) => {
            let mut m = dcbor::Map::new();
            for (k, v) in es {
                m.insert(leaf_cbor(k), leaf_cbor(v));
            }
            Envelope::new(m)
        }
        _ => Envelope::new(leaf_cbor(l)),
    }
}

fn permutation(n: usize, src: &mut Src) -> Vec<usize> {
    let mut idx: Vec<usize> = (0..n).collect();
    // Fisher-Yates driven by the source; all-zero draws give the identity
    for i in 0..n {
        let j = i + src.below(n - i);
        idx.swap(i, j);
    }
    idx
}

/// Obscure a whole library envelope the way `Spec::Obscured` says.
pub fn obscure_whole(e: &Envelope, k: Obs, nonce: &[u8; 12], src: &mut Src) -> Envelope {
    match k {
        Obs::Elide => e.elide(),
        Obs::Compress => e.compress().expect("compress of a non-obscured envelope"),
        Obs::Encrypt => {
            let key = case_key();
            if src.bool() {
                // through the library's own element-level action
                e.elide_removing_target_with_action(e, &ObscureAction::Encrypt(key))
            } else {
                // a caller-made EncryptedMessage handed to the public conversion
                let n = Nonce::from_data_ref(nonce).unwrap();
                let msg = key.encrypt_with_digest(e.tagged_cbor().to_cbor_data(), e.digest().into_owned(), Some(n));
                Envelope::try_from(msg).expect("encrypted message with digest")
            }
        }
    }
}

/// Route A: public constructors and mutators, insertion order and API mix drawn from `src`.
pub fn build_a(s: &Spec, src: &mut Src) -> Envelope {
    match s {
        Spec::Leaf(l) => leaf_envelope(l, src),
        Spec::Known(v) => {
            if src.bool() {
                Envelope::new(KnownValue::new(*v))
            } else {
                Envelope::new(KnownValue::new_with_name(*v, "n".to_string()))
            }
        }
        Spec::Assertion(p, o) => {
            let pe = build_a(p, src);
            let oe = build_a(o, src);
            if src.bool() {
                Envelope::new_assertion(pe, oe)
            } else {
                Envelope::new(bc_envelope::Assertion::new(pe, oe))
            }
        }
        Spec::Wrapped(i) => build_a(i, src).wrap_envelope(),
        Spec::Obscured(k, nonce, inner) => {
            let e = build_a(inner, src);
            obscure_whole(&e, *k, nonce, src)
        }
        Spec::Node(sub, asr) => {
            let order = permutation(asr.len(), src);
            let built: Vec<Envelope> = asr.iter().map(|a| build_a(a, src)).collect();
            let add_all = |mut e: Envelope, src: &mut Src| -> Envelope {
                let mode = src.below(4);
                match mode {
                    3 => {
                        let v: Vec<Envelope> = order.iter().map(|i| built[*i].clone()).collect();
                        if src.bool() {
                            e.add_assertions(&v)
                        } else {
                            e.add_assertion_envelopes(&v).expect("valid assertion envelopes")
                        }
                    }
                    _ => {
                        for i in &order {
                            let a = &built[*i];
                            let plain = matches!(a.case(), EnvelopeCase::Assertion(_));
                            if plain && mode == 1 {
                                e = e.add_assertion(a.as_predicate().unwrap(), a.as_object().unwrap());
                            } else if mode == 2 {
                                e = e.add_optional_assertion_envelope(Some(a.clone())).expect("valid assertion envelope");
                            } else {
                                e = e.add_assertion_envelope(a.clone()).expect("valid assertion envelope");
                            }
                        }
                        e
                    }
                }
            };
            match &**sub {
                Spec::Node(..) => {
                    // node as subject: only reachable by revealing an obscured subject.
                    // encrypt the inner node, attach the assertions, decrypt the subject again.
                    let inner = build_a(sub, src);
                    let key = case_key();
                    let msg = key.encrypt_with_digest(inner.tagged_cbor().to_cbor_data(), inner.digest().into_owned(), None::<Nonce>);
                    let enc = Envelope::try_from(msg).expect("encrypted message with digest");
                    let e = add_all(enc, src);
                    e.decrypt_subject(&key).expect("decrypt of a subject encrypted a moment ago")
                }
                _ => {
                    let subj = build_a(sub, src);
                    add_all(subj, src)
                }
            }
        }
    }
}

/// Route B: encode the model with the harness encoder and decode with the library.
pub fn build_b(m: &M) -> Result<Envelope, String> {
    Envelope::try_from_cbor_data(m.tagged()).map_err(|e| format!("library rejected a valid encoding: {} (bytes {})", e, hex::encode(m.tagged())))
}

pub fn known(v: u64) -> Envelope {
    Envelope::new(KnownValue::new(v))
}
