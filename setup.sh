#!/bin/bash
# MANIFEST.setup_cmd — offline build of the harness from files on disk only.
set -e
HERE="$(cd "$(dirname "$0")" && pwd)"
export CARGO_NET_OFFLINE=true
cd "$HERE/harness"
cargo build --release --offline --target-dir target 2>&1 | tail -3
cargo build --release --offline --features mt --target-dir target-mt 2>&1 | tail -3
echo "setup done"
