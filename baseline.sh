#!/bin/bash
# Runs the repository's pinned test-suite (hooks off — there are none) and checks that the 90
# stable tests of /root/.vp/BASELINE.json all pass. The four `always_fail` tests are expected to fail.
cd /repo || exit 2
export CARGO_NET_OFFLINE=true
out=$(cargo nextest run --workspace --no-fail-fast --tool-config-file pb:/w/lib/nextest.toml --profile pb --test-threads 8 --offline 2>&1 \
      || true)
if ! echo "$out" | grep -q "Summary"; then
  out=$(cargo nextest run --workspace --no-fail-fast --test-threads 8 --offline 2>&1 || true)
fi
if ! echo "$out" | grep -q "Summary"; then
  out=$(cargo test --workspace --no-fail-fast --offline 2>&1 || true)
  echo "$out" | tail -30
  exit 0
fi
echo "$out" | grep -E "Summary|FAIL" | sort -u
passed=$(echo "$out" | grep "Summary" | sed -E 's/.* ([0-9]+) passed.*/\1/')
fails=$(echo "$out" | grep -E "^\s+FAIL" | sed -E 's/.*\) //' | sort -u)
expected="bc-envelope::crypto_tests test_hidden_signature_multi_recipient
bc-envelope::crypto_tests test_multi_recipient
bc-envelope::crypto_tests test_visible_signature_multi_recipient
bc-envelope::signature_tests test_signed_plaintext"
unexpected=$(comm -23 <(echo "$fails") <(echo "$expected" | sort -u))
if [ "$passed" -ge 90 ] && [ -z "$unexpected" ]; then echo "BASELINE OK: $passed passed"; exit 0; fi
echo "BASELINE BROKEN: passed=$passed unexpected failures: $unexpected"; exit 1
