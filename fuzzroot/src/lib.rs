// placeholder crate so that cargo-fuzz finds a project root
