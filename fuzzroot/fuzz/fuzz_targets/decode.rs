#![no_main]
// C06 (and the parse part of C16): the fuzzer's bytes ARE the input of the decoder; the semantic
// oracle (re-encode identity, canonicality, grammar recogniser) sits inside the target.
use libfuzzer_sys::fuzz_target;
mod common;
use envverif::engine::{self, Ctx, Outcome};

fuzz_target!(|data: &[u8]| {
    let open = common::known_open("C06");
    let mut ctx = Ctx::new(open);
    let out = match engine::guard(|| envverif::props::c06::judge_decode(data, &mut ctx)) {
        Ok(o) => o,
        Err(p) => Outcome::Fail(engine::Failure { sub: "harness".into(), key: "C06/uncaught-panic".into(), msg: p }),
    };
    if let Outcome::Fail(f) = out {
        eprintln!("FUZZ-VIOLATION property=C06 [{}] {}: {}", f.sub, f.key, f.msg);
        std::process::abort();
    }
});
