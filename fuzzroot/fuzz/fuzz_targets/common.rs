// Shared glue: run one property's run_case on the fuzzer's bytes; an unlisted failure aborts the
// process (libFuzzer then saves the input as a crash artifact); listed open findings are tolerated.
use envverif::engine::{self, Ctx, Outcome, Prop};
use std::collections::HashSet;
use std::sync::OnceLock;

pub fn known_open(id: &str) -> &'static HashSet<String> {
    static K: OnceLock<std::collections::HashMap<String, HashSet<String>>> = OnceLock::new();
    let all = K.get_or_init(|| {
        engine::install_panic_hook();
        bc_envelope::register_tags();
        let dir = std::path::PathBuf::from(std::env::var("VERIF_DIR").unwrap_or_else(|_| "/verif".into()));
        let mut m: std::collections::HashMap<String, HashSet<String>> = Default::default();
        for k in engine::load_known(&dir) {
            if k.status == "open" {
                m.entry(k.property.clone()).or_default().insert(k.key.clone());
            }
        }
        m
    });
    static EMPTY: OnceLock<HashSet<String>> = OnceLock::new();
    all.get(id).unwrap_or_else(|| EMPTY.get_or_init(HashSet::new))
}

pub fn drive(prop: &Prop, data: &[u8]) {
    let open = known_open(prop.id);
    let mut ctx = Ctx::new(open);
    ctx.tier_thorough = true;
    let out = match engine::guard(|| (prop.run)(data, &mut ctx)) {
        Ok(o) => o,
        Err(p) => Outcome::Fail(engine::Failure { sub: "harness".into(), key: format!("{}/uncaught-panic", prop.id), msg: p }),
    };
    if let Outcome::Fail(f) = out {
        eprintln!("FUZZ-VIOLATION property={} [{}] {}: {}", prop.id, f.sub, f.key, f.msg);
        std::process::abort();
    }
}
