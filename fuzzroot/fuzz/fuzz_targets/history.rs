#![no_main]
// C04 / C01 / C07(e): the bytes are a choice sequence -> start envelope + operation history.
use libfuzzer_sys::fuzz_target;
mod common;

fuzz_target!(|data: &[u8]| {
    common::drive(&envverif::props::c04::prop(), data);
});
