#![no_main]
// C03 (visibility + residue) and C12 (proofs) over one choice sequence.
use libfuzzer_sys::fuzz_target;
mod common;

fuzz_target!(|data: &[u8]| {
    common::drive(&envverif::props::c03::prop(), data);
    common::drive(&envverif::props::c12::prop(), data);
});
