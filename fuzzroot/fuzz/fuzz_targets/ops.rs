#![no_main]
// C16: bytes -> (built / decorated / decoded) envelope + operation list.
use libfuzzer_sys::fuzz_target;
mod common;

fuzz_target!(|data: &[u8]| {
    common::drive(&envverif::props::c16::prop(), data);
});
